import NetProto.Props.C20Lemmas
import NetProto.Generated.Shapes
import NetProto.Generated.Consts
/-! C20: HTTP requests and WebSocket messages survive the round trip.
Models: `Model/Http.lean`, `Model/Ws.lean`; independent RFC 6455 / RFC 3174 / RFC 4648 reading: `Spec/Ws.lean`. -/
namespace Props.C20
open Model.Http

/-! ## HTTP -/

def supported (m : Bytes) : Prop := m = str "GET" ∨ m = str "HEAD" ∨ m = str "POST" ∨ m = str "PUT"

theorem buildRequest_message (m u body : Bytes) (hs : List (Bytes × Bytes)) (hm : m ≠ []) :
    buildRequest m u hs body = message m u (str "HTTP/1.1") hs body := by
  simp [buildRequest, message, hm]

theorem supported_status (m : Bytes) (h : supported m) : lineStatus 200 m (str "HTTP/1.1") = 200 := by
  rcases h with h | h | h | h <;> subst h <;> decide

theorem supported_tok (m : Bytes) (h : supported m) : okTok m := by
  rcases h with h | h | h | h <;> subst h <;> decide

/-- **request round trip**: what the bundled client writes for (method, path, headers, body) is parsed by the server
into exactly that method, path, header list and body, and leaves the connection's status at 200 — for every
supported method, every path without a space, every header set in the grammar in whatever order the map yields it,
and every body -/
theorem http_request_roundtrip (m u body : Bytes) (hs : List (Bytes × Bytes))
    (hm : supported m) (hu : okTok u) (hh : ∀ h ∈ hs, okKey h.1 ∧ okVal h.2) :
    parse 200 (buildRequest m u hs body)
      = { method := m, uri := u, version := str "HTTP/1.1", headers := hs, body := body, status := 200 } := by
  rw [buildRequest_message m u body hs (supported_tok m hm).1,
    parse_message 200 m u _ body hs (supported_tok m hm) hu (by decide) hh, supported_status m hm]

/-- the header map the handler queries: every header sent is found with its value when keys are distinct -/
theorem lookup_finds (hs : List (Bytes × Bytes)) (k v : Bytes) (hmem : (k, v) ∈ hs)
    (hd : hs.Pairwise (fun x y => x.1 ≠ y.1)) : lookup hs k = some v := by
  induction hs with
  | nil => simp at hmem
  | cons x xs ih =>
    rw [List.pairwise_cons] at hd
    unfold lookup
    rw [List.reverse_cons, List.find?_append]
    rcases List.mem_cons.mp hmem with e | e
    · subst e
      have : List.find? (fun x => decide (x.1 = k)) xs.reverse = none := by
        rw [List.find?_eq_none]; intro y hy; simp only [List.mem_reverse] at hy
        simpa using fun e => hd.1 y hy e.symm
      simp [this]
    · have := ih e hd.2
      unfold lookup at this
      cases hf : List.find? (fun x => decide (x.1 = k)) xs.reverse with
      | none => simp [hf] at this
      | some y => simp [hf] at this ⊢; exact this

/-- **dispatch**: a request for a registered path runs the handler on exactly the request that was sent; the response
carries the status the handler set (200 when it set none) and, with status 200, the handler's body -/
theorem serve_registered (mux : List Bytes) (handler : Parsed → Nat × Bytes) (m u body : Bytes) (hs : List (Bytes × Bytes))
    (hm : supported m) (hu : okTok u) (hh : ∀ h ∈ hs, okKey h.1 ∧ okVal h.2) (hreg : u ∈ mux) :
    let req : Parsed := { method := m, uri := u, version := str "HTTP/1.1", headers := hs, body := body, status := 200 }
    let st := if (handler req).1 ≠ 0 then (handler req).1 else 200
    serve mux handler (buildRequest m u hs body)
      = { invoked := some req, status := st,
          body := if st ≠ 200 then defaultErrMsg else if (handler req).2 = [] then defaultSuccessMsg else (handler req).2 } := by
  intro req st
  unfold serve
  rw [http_request_roundtrip m u body hs hm hu hh]
  simp [hreg, req, st]

/-- the status a handler sets through `Response.Error` is the status of the response -/
theorem handler_status_delivered (mux : List Bytes) (handler : Parsed → Nat × Bytes) (m u body : Bytes)
    (hs : List (Bytes × Bytes)) (hm : supported m) (hu : okTok u) (hh : ∀ h ∈ hs, okKey h.1 ∧ okVal h.2) (hreg : u ∈ mux)
    (hc : (handler { method := m, uri := u, version := str "HTTP/1.1", headers := hs, body := body, status := 200 }).1 ≠ 0) :
    (serve mux handler (buildRequest m u hs body)).status
      = (handler { method := m, uri := u, version := str "HTTP/1.1", headers := hs, body := body, status := 200 }).1 := by
  rw [serve_registered mux handler m u body hs hm hu hh hreg]; simp [hc]

/-- known finding, as a theorem about the model: with any status but 200 the body the handler produced is replaced by
the standard error page -/
theorem error_status_replaces_body (mux : List Bytes) (handler : Parsed → Nat × Bytes) (m u body : Bytes)
    (hs : List (Bytes × Bytes)) (hm : supported m) (hu : okTok u) (hh : ∀ h ∈ hs, okKey h.1 ∧ okVal h.2) (hreg : u ∈ mux)
    (hc : (handler { method := m, uri := u, version := str "HTTP/1.1", headers := hs, body := body, status := 200 }).1 ≠ 0)
    (h2 : (handler { method := m, uri := u, version := str "HTTP/1.1", headers := hs, body := body, status := 200 }).1 ≠ 200) :
    (serve mux handler (buildRequest m u hs body)).body = defaultErrMsg := by
  rw [serve_registered mux handler m u body hs hm hu hh hreg]; simp [hc, h2]

theorem serve_unregistered (mux : List Bytes) (handler : Parsed → Nat × Bytes) (m u body : Bytes) (hs : List (Bytes × Bytes))
    (hm : supported m) (hu : okTok u) (hh : ∀ h ∈ hs, okKey h.1 ∧ okVal h.2) (hreg : u ∉ mux) :
    (serve mux handler (buildRequest m u hs body)).invoked = none := by
  unfold serve
  rw [http_request_roundtrip m u body hs hm hu hh]
  simp [hreg]

/-- no handler runs for an unregistered path whatever bytes arrive -/
theorem unregistered_never_invokes (mux : List Bytes) (handler : Parsed → Nat × Bytes) (buf : Bytes)
    (h : (parse 200 buf).uri ∉ mux) : (serve mux handler buf).invoked = none := by
  unfold serve; simp [h]

/-- and a handler only ever runs for the path it was registered for -/
theorem invoked_only_for_registered (mux : List Bytes) (handler : Parsed → Nat × Bytes) (buf : Bytes) (r : Parsed)
    (h : (serve mux handler buf).invoked = some r) : r.uri ∈ mux ∧ r = parse 200 buf := by
  unfold serve at h
  by_cases hc : (parse 200 buf).uri ∈ mux
  · simp only [List.contains_iff_mem, hc, if_true] at h
    have e : parse 200 buf = r := by simpa using h
    subst e; exact ⟨hc, rfl⟩
  · simp [hc] at h

/-- **response round trip**: the bundled client, which reads a response with the request parser, finds the status
digits in the `uri` field and the response body, byte for byte, in the body -/
theorem http_response_roundtrip (st : Nat) (ver code reason body : Bytes) (hs : List (Bytes × Bytes))
    (hv : okTok ver) (hc : okTok code) (hr : okVal reason) (hh : ∀ h ∈ hs, okKey h.1 ∧ okVal h.2) :
    (parse st (buildResponse ver code reason hs body)).uri = code ∧
    (parse st (buildResponse ver code reason hs body)).body = body ∧
    (parse st (buildResponse ver code reason hs body)).headers = hs := by
  have e : buildResponse ver code reason hs body = message ver code reason hs body := by
    simp [buildResponse, message]
  rw [e, parse_message st ver code reason body hs hv hc hr hh]
  simp

/-- the two headers every response carries are in the grammar, in either order -/
example : ∀ h ∈ [(str "Server", str "github.com/brewlin/net-protocol/1.00"), (str "Connection", str "close")],
    okKey h.1 ∧ okVal h.2 := by decide

/-- **whole exchange**: client request → server → response → client: for a registered path, a handler that sets no
status and produces a body: the client reads status `200` and exactly the body the handler produced from exactly the
request that was sent -/
theorem http_exchange (mux : List Bytes) (handler : Parsed → Nat × Bytes) (m u body : Bytes) (hs rhs : List (Bytes × Bytes))
    (hm : supported m) (hu : okTok u) (hh : ∀ h ∈ hs, okKey h.1 ∧ okVal h.2) (hreg : u ∈ mux)
    (hrh : ∀ h ∈ rhs, okKey h.1 ∧ okVal h.2)
    (hc : (handler { method := m, uri := u, version := str "HTTP/1.1", headers := hs, body := body, status := 200 }).1 = 0)
    (hne : (handler { method := m, uri := u, version := str "HTTP/1.1", headers := hs, body := body, status := 200 }).2 ≠ []) :
    let s := serve mux handler (buildRequest m u hs body)
    let back := parse 200 (buildResponse (str "HTTP/1.1") (str "200") (str "OK") rhs s.body)
    s.status = 200 ∧ back.uri = str "200" ∧
    back.body = (handler { method := m, uri := u, version := str "HTTP/1.1", headers := hs, body := body, status := 200 }).2 := by
  intro s back
  have hs' := serve_registered mux handler m u body hs hm hu hh hreg
  have hb := http_response_roundtrip 200 (str "HTTP/1.1") (str "200") (str "OK") s.body rhs (by decide) (by decide) (by decide) hrh
  refine ⟨?_, hb.1, ?_⟩
  · show (serve mux handler (buildRequest m u hs body)).status = 200
    rw [hs']; simp [hc]
  · show (parse 200 _).body = _
    rw [hb.2.1]
    show (serve mux handler (buildRequest m u hs body)).body = _
    rw [hs']; simp [hc, hne]

/-- non-vacuity: a concrete request in the grammar, served and read back -/
def exampleHeaders : List (Bytes × Bytes) :=
  [(str "Host", str "10.0.0.1:8080"), (str "User-Agent", str "net-protocol/5.0"), (str "Accept", str "*/*"),
   (str "X-A", str "b: c")]
instance : Decidable (supported m) := by unfold supported; infer_instance
example :
    supported (str "POST") ∧ okTok (str "/a?b=c") ∧ (∀ h ∈ exampleHeaders, okKey h.1 ∧ okVal h.2) ∧
    (serve [str "/a?b=c"] (fun r => (0, r.body ++ r.method))
      (buildRequest (str "POST") (str "/a?b=c") exampleHeaders (str "x: y\r\n\r\nz"))).body
      = str "x: y\r\n\r\nzPOST" := by decide

/-! ## the source statements the models mirror (regenerated from /repo on every run)

Any edit of these statements breaks the pin below; the check then looks for a failing input. -/

/-- the parser's header loop with the blank-line stop, the status assignments, `set_status_code`, `Response.Error`, the dispatcher, the server's read, `match_until` -/
theorem http_statements_pinned :
    Gen.Shapes.http_header_loop = ["v4, v5, v6 := \"\", \"\", \"\"", "v4, v6 = match_until(v3, \": \")", "v3 = v6", "v5, v6 = match_until(v3, \"\\r\\n\")", "v3 = v6"] ∧
    Gen.Shapes.http_blank_line = ["if strings.HasPrefix(v3, \"\\r\\n\")"] ∧
    Gen.Shapes.http_body = ["v0.body = v3"] ∧
    Gen.Shapes.http_parse_status = ["v1.status_code = 400", "v1.set_status_code(501)", "v1.status_code = 400", "v1.status_code = 400", "v1.set_status_code(200)", "v1.status_code = 400", "v1.set_status_code(400)", "log.Println(\"@application http: header parse status_code:\", v1.status_code)"] ∧
    Gen.Shapes.http_set_status = ["if v0.status_code == 0", "v0.status_code = v1"] ∧
    Gen.Shapes.http_error = ["v0.con.status_code = v1"] ∧
    Gen.Shapes.http_dispatch = ["_, v2 := defaultMux.m[v1.request.uri]", "defaultMux.m[v1.request.uri].h(v1.request, v1.response)"] ∧
    Gen.Shapes.http_server_read = ["<-v0.notifyC"] ∧
    Gen.Shapes.http_match_until = ["v2 := strings.Index(v0, v1)", "if v2 == -1"] := by decide

/-- the frame writer's length cases, the reader's header and length decoding, the masking loop, the header-bit constants -/
theorem ws_statements_pinned :
    Gen.Shapes.ws_send_len = ["v2 := len(v1)", "v0.writeBuf = make([]byte, 10+v2)", "case v2 >= 1<<16", "binary.BigEndian.PutUint64(v0.writeBuf[v3:], uint64(v2))", "case v2 > 125", "binary.BigEndian.PutUint16(v0.writeBuf[v3:], uint16(v2))", "v0.writeBuf[1] = byte(v2)"] ∧
    Gen.Shapes.ws_read_len = ["v8 := int64(v7)", "v8 = int64(binary.BigEndian.Uint16(v3[:2]))", "v8 = int64(binary.BigEndian.Uint64(v3[:8]))", "log.Printf(\"Read data length :%d,payload length %d\", v7, v8)", "v9 := make([]byte, v8)"] ∧
    Gen.Shapes.ws_read_hdr = ["_, v2 := v0.conn.Readn(v3[:2])", "v4 := v3[0]&finalBit != 0", "log.Printf(\"read data 1 bit :%b\\n\", v3[0])", "v5 := int(v3[0] & 0xf)", "v6 := v3[1]&maskBit != 0", "v7 := int64(v3[1] & 0x7F)", "_, v2 := v0.conn.Readn(v3[:2])", "v8 = int64(binary.BigEndian.Uint16(v3[:2]))", "_, v2 := v0.conn.Readn(v3[:8])", "v8 = int64(binary.BigEndian.Uint64(v3[:8]))"] ∧
    Gen.Shapes.ws_read_case = ["case 126", "case 127"] ∧
    Gen.Shapes.ws_mask = ["v2 := 0", "v1[v3] ^= v0[v2&3]", "v2++"] ∧
    Gen.Consts.ws_finalBit = Model.Ws.finalBit ∧ Gen.Consts.ws_maskBit = Model.Ws.maskBit ∧
    Gen.Consts.ws_TextMessage = Model.Ws.textMessage ∧ Gen.Consts.ws_CloseMessage = Model.Ws.closeMessage := by decide

/-! ## WebSocket -/
section ws
open Model.Ws

/-- every message `SendData` frames is read back by `ReadData` with exactly the bytes sent, whatever follows it in
the stream: all three length encodings, any length a Go slice can have -/
theorem ws_roundtrip (data rest : List Nat) (h : data.length < 2 ^ 63) :
    readData (sendData data ++ rest) = .data data rest := by
  unfold sendData
  by_cases h1 : data.length ≥ 65536
  · simp only [h1, if_true]
    have e : readn 2 ([textMessage + finalBit, 127] ++ beBytes 8 data.length ++ data ++ rest)
        = some ([textMessage + finalBit, 127], beBytes 8 data.length ++ (data ++ rest)) := by
      simp [readn]
    have hv : beVal (beBytes 8 data.length) = data.length := beVal_beBytes 8 _ (by omega)
    have e2 : readn 8 (beBytes 8 data.length ++ (data ++ rest)) = some (beBytes 8 data.length, data ++ rest) :=
      readn_append_n 8 _ _ (beBytes_length 8 _)
    unfold readData
    simp only [e, e2, hv]
    simp [textMessage, finalBit, closeMessage, readPayload_plain]
    omega
  · simp only [h1, if_false]
    by_cases h2 : data.length > 125
    · simp only [h2, if_true]
      have e : readn 2 ([textMessage + finalBit, 126] ++ beBytes 2 data.length ++ data ++ rest)
          = some ([textMessage + finalBit, 126], beBytes 2 data.length ++ (data ++ rest)) := by
        simp [readn]
      have hv : beVal (beBytes 2 data.length) = data.length := beVal_beBytes 2 _ (by omega)
      have e2 : readn 2 (beBytes 2 data.length ++ (data ++ rest)) = some (beBytes 2 data.length, data ++ rest) :=
        readn_append_n 2 _ _ (beBytes_length 2 _)
      unfold readData
      simp only [e, e2, hv]
      simp [textMessage, finalBit, closeMessage, readPayload_plain]
    · simp only [h2, if_false]
      have e : readn 2 ([textMessage + finalBit, data.length] ++ data ++ rest)
          = some ([textMessage + finalBit, data.length], data ++ rest) := by
        simp [readn]
      unfold readData
      simp only [e]
      have : data.length % 128 = data.length := Nat.mod_eq_of_lt (by omega)
      have h3 : data.length / 128 % 2 = 0 := by omega
      have n6 : data.length ≠ 126 := by omega
      have n7 : data.length ≠ 127 := by omega
      simp [textMessage, finalBit, closeMessage, this, h3, readPayload_plain, n6, n7]
/-- what `SendData` writes is exactly RFC 6455's unmasked final text frame with the minimal length encoding -/
theorem sendData_is_rfc_frame (data : List Nat) : sendData data = Spec.Ws.encodeFrame 1 none data := by
  unfold sendData Spec.Ws.encodeFrame
  simp only [spec_be_eq, Option.isSome_none]
  by_cases h1 : data.length ≥ 65536
  · have a : ¬ data.length ≤ 125 := by omega
    have b : ¬ data.length ≤ 65535 := by omega
    simp [h1, a, b, textMessage, finalBit]
  · by_cases h2 : data.length > 125
    · have a : ¬ data.length ≤ 125 := by omega
      have b : data.length ≤ 65535 := by omega
      simp [h1, h2, a, b, textMessage, finalBit]
    · have a : data.length ≤ 125 := by omega
      simp [h1, h2, a, textMessage, finalBit]

/-- `ReadData` returns the payload of every final text frame an RFC 6455 peer can send — masked with any key or
not, any length a Go slice can have — and leaves the rest of the stream untouched -/
theorem reads_rfc_frames (key : Option (List Nat)) (hk : ∀ k, key = some k → k.length = 4) (data rest : List Nat)
    (h : data.length < 2 ^ 63) : readData (Spec.Ws.encodeFrame 1 key data ++ rest) = .data data rest := by
  cases key with
  | none => rw [← sendData_is_rfc_frame]; exact ws_roundtrip data rest h
  | some k =>
    have hk4 := hk k rfl
    unfold Spec.Ws.encodeFrame
    simp only [spec_be_eq, spec_xor_eq, Option.isSome_some, if_true]
    by_cases h1 : data.length ≤ 125
    · simp only [h1, if_true]
      have e : readn 2 ([128 + 1] ++ [128 + data.length] ++ k ++ maskBytes k data ++ rest)
          = some ([128 + 1, 128 + data.length], k ++ maskBytes k data ++ rest) := by simp [readn]
      unfold readData
      simp only [e]
      have a1 : (128 + data.length) % 128 = data.length := by omega
      have a2 : (128 + data.length) / 128 % 2 = 1 := by omega
      have n6 : data.length ≠ 126 := by omega
      have n7 : data.length ≠ 127 := by omega
      have a3 : (data.length / 128 + 1) % 2 = 1 := by omega
      simp [textMessage, closeMessage, a1, a2, a3, n6, n7, readPayload_masked k data rest hk4]
    · simp only [h1, if_false]
      by_cases h2 : data.length ≤ 65535
      · simp only [h2, if_true]
        have e : readn 2 ([128 + 1] ++ ([128 + 126] ++ beBytes 2 data.length) ++ k ++ maskBytes k data ++ rest)
            = some ([128 + 1, 128 + 126], beBytes 2 data.length ++ (k ++ maskBytes k data ++ rest)) := by simp [readn]
        have hv : beVal (beBytes 2 data.length) = data.length := beVal_beBytes 2 _ (by omega)
        have e2 : readn 2 (beBytes 2 data.length ++ (k ++ maskBytes k data ++ rest))
            = some (beBytes 2 data.length, k ++ maskBytes k data ++ rest) := readn_append_n 2 _ _ (beBytes_length 2 _)
        unfold readData
        simp only [e, e2, hv]
        simp [textMessage, closeMessage, readPayload_masked k data rest hk4]
      · simp only [h2, if_false]
        have e : readn 2 ([128 + 1] ++ ([128 + 127] ++ beBytes 8 data.length) ++ k ++ maskBytes k data ++ rest)
            = some ([128 + 1, 128 + 127], beBytes 8 data.length ++ (k ++ maskBytes k data ++ rest)) := by simp [readn]
        have hv : beVal (beBytes 8 data.length) = data.length := beVal_beBytes 8 _ (by omega)
        have e2 : readn 8 (beBytes 8 data.length ++ (k ++ maskBytes k data ++ rest))
            = some (beBytes 8 data.length, k ++ maskBytes k data ++ rest) := readn_append_n 8 _ _ (beBytes_length 8 _)
        unfold readData
        simp only [e, e2, hv]
        have nb : ¬ (9223372036854775808 ≤ data.length) := by omega
        simp [textMessage, closeMessage, readPayload_masked k data rest hk4, hv, nb]

/-- messages sent one after the other are received as the same messages in the same order -/
theorem ws_sequence_roundtrip (msgs : List (List Nat)) (h : ∀ m ∈ msgs, m.length < 2 ^ 63) :
    readAll (msgs.length + 1) (msgs.map sendData).flatten = msgs := by
  induction msgs with
  | nil => simp [readAll, readData, readn]
  | cons m ms ih =>
    have hm := h m (by simp)
    have := ws_roundtrip m (ms.map sendData).flatten hm
    rw [List.map_cons, List.flatten_cons, List.length_cons, readAll, this]
    simp only []
    rw [ih (fun x hx => h x (by simp [hx]))]

/-- an independent RFC 6455 decoder reads what `SendData` wrote as one well-formed (final, no reserved bits, text,
minimal length encoding), unmasked frame carrying exactly the message, and nothing more -/
theorem rfc_decoder_reads_sent (data rest : List Nat) (h : data.length < 2 ^ 64) :
    Spec.Ws.decodeFrame (sendData data ++ rest)
      = some ({ fin := true, rsv := 0, opcode := 1, masked := false, minimalLength := true, payload := data }, rest) := by
  unfold sendData
  by_cases h1 : data.length ≥ 65536
  · have hv : beVal (beBytes 8 data.length) = data.length := beVal_beBytes 8 _ (by omega)
    have hl := beBytes_length 8 data.length
    simp only [h1, if_true, List.cons_append, List.nil_append, Spec.Ws.decodeFrame, List.append_assoc]
    have t : List.take 8 (beBytes 8 data.length ++ (data ++ rest)) = beBytes 8 data.length := by
      rw [List.take_append_of_le_length (by omega)]; rw [List.take_of_length_le (by omega)]
    have d : List.drop 8 (beBytes 8 data.length ++ (data ++ rest)) = data ++ rest := by
      rw [List.drop_append_of_le_length (by omega)]; rw [List.drop_of_length_le (by omega)]; rfl
    simp [t, d, spec_unbe_eq, hv, hl, textMessage, finalBit]
    omega
  · by_cases h2 : data.length > 125
    · have hv : beVal (beBytes 2 data.length) = data.length := beVal_beBytes 2 _ (by omega)
      have hl := beBytes_length 2 data.length
      simp only [h1, h2, if_true, if_false, List.cons_append, List.nil_append, Spec.Ws.decodeFrame, List.append_assoc]
      have t : List.take 2 (beBytes 2 data.length ++ (data ++ rest)) = beBytes 2 data.length := by
        rw [List.take_append_of_le_length (by omega)]; rw [List.take_of_length_le (by omega)]
      have d : List.drop 2 (beBytes 2 data.length ++ (data ++ rest)) = data ++ rest := by
        rw [List.drop_append_of_le_length (by omega)]; rw [List.drop_of_length_le (by omega)]; rfl
      simp [t, d, spec_unbe_eq, hv, hl, textMessage, finalBit]
      omega
    · simp only [h1, h2, if_false, List.cons_append, List.nil_append, Spec.Ws.decodeFrame]
      have a1 : data.length % 128 = data.length := by omega
      have n6 : data.length ≠ 126 := by omega
      have n7 : data.length ≠ 127 := by omega
      have lt : ¬ (128 ≤ data.length) := by omega
      simp [a1, n6, n7, lt, textMessage, finalBit]

/-! ### the upgrade -/

/-- the bytes `Upgrade` writes are a message in the grammar the client's parser reads -/
theorem upgrade_bytes (key : List Nat) :
    upgradeHead ++ computeAcceptKey key ++ crlf ++ crlf
      = message (str "HTTP/1.1") (str "101") (str "Switching Protocols")
          [(str "Upgrade", str "websocket"), (str "Connection", str "Upgrade"),
           (str "Sec-WebSocket-Accept", Spec.Ws.acceptKey key)] [] := by
  have e : upgradeHead = str "HTTP/1.1" ++ (sp ++ (str "101" ++ (sp ++ (str "Switching Protocols" ++ (crlf ++
      (str "Upgrade" ++ (colonSp ++ (str "websocket" ++ (crlf ++ (str "Connection" ++ (colonSp ++ (str "Upgrade" ++
      (crlf ++ (str "Sec-WebSocket-Accept" ++ colonSp)))))))))))))) := by decide
  rw [e]; simp [message, headerLines, computeAcceptKey]

/-- **accept key**: when the request carries the upgrade headers, `Upgrade` answers, and the accept key the client
reads out of the answer is RFC 6455's function (base64 of the SHA-1 of key ++ GUID) of the key the client sent -/
theorem upgrade_accept_key (r : Parsed) (key : List Nat)
    (hm : r.method = str "GET") (hv : hdr r "Sec-WebSocket-Version" = str "13")
    (hc : tokenListContainsValue (hdr r "Connection") (str "upgrade") = true)
    (hu : hdr r "Upgrade" = str "websocket") (hk : hdr r "Sec-WebSocket-Key" = key) (hne : key ≠ []) :
    ∃ resp, upgrade r = some resp ∧
      lookup (parse 200 resp).headers (str "Sec-WebSocket-Accept") = some (Spec.Ws.acceptKey key) := by
  refine ⟨upgradeHead ++ computeAcceptKey key ++ crlf ++ crlf, ?_, ?_⟩
  · unfold upgrade; simp [hm, hv, hc, hu, hk, hne]
  · rw [upgrade_bytes, parse_message 200 _ _ _ [] _ (by decide) (by decide) (by decide)]
    · simp [lookup]
    · intro h hh
      simp only [List.mem_cons, List.not_mem_nil, or_false] at hh
      rcases hh with e | e | e <;> subst e
      · decide
      · decide
      · exact ⟨(by decide : okKey (str "Sec-WebSocket-Accept")), acceptKey_nonempty key, acceptKey_clean key⟩

/-- … and refuses (writes nothing) when the key is missing, the method is not GET, or the version is not 13 -/
theorem upgrade_refuses (r : Parsed)
    (h : r.method ≠ str "GET" ∨ hdr r "Sec-WebSocket-Version" ≠ str "13" ∨ hdr r "Sec-WebSocket-Key" = []) :
    upgrade r = none := by
  unfold upgrade
  rcases h with h | h | h
  · simp [h]
  · by_cases a : r.method = str "GET" <;> simp [a, h]
  · by_cases a : r.method = str "GET" <;> by_cases b : hdr r "Sec-WebSocket-Version" = str "13" <;> simp [a, b, h]

/-- non-vacuity: the request the bundled WebSocket client sends meets the hypotheses -/
def upgradeRequest (key : List Nat) : Parsed :=
  parse 200 (buildRequest (str "GET") (str "/ws")
    [(str "Host", str "10.0.0.1:8080"), (str "Upgrade", str "websocket"), (str "Connection", str "Upgrade"),
     (str "Sec-WebSocket-Key", key), (str "Sec-WebSocket-Protcol", str "chat, superchat"),
     (str "Sec-WebSocket-Version", str "13")] [])
set_option maxRecDepth 4096 in
example : let r := upgradeRequest (str "dGhlIHNhbXBsZSBub25jZQ==")
    r.method = str "GET" ∧ hdr r "Sec-WebSocket-Version" = str "13" ∧
    tokenListContainsValue (hdr r "Connection") (str "upgrade") = true ∧ hdr r "Upgrade" = str "websocket" ∧
    hdr r "Sec-WebSocket-Key" = str "dGhlIHNhbXBsZSBub25jZQ==" := by decide

end ws
end Props.C20
