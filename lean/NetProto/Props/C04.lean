import NetProto.Props.TcpLemmas
/-! # C04 — the peer's window and MSS are respected; the stack's own window is honest

Model: `Model/Tcp.lean` (`sendStep`/`sendDataLoop`/`sendData`, `getSendParams`, `acceptable`, `consumeSegment`,
`rcvHandleSegment`, `appRead`), tied to the real stack by the trace correspondence of the TCP world.

Full statement of the sender half: *no transmitted byte lies beyond the right edge of a window the peer has
offered, and no segment is larger than the peer's MSS or the MTU allows*.  This file proves it for everything
`sendData` transmits, against the window offered *now* (`sendData_within`, `appWrite_within`, `timerEvent_within`).
`Props/C04Send.lean` closes it for every reachable state and every transmission, the fast retransmission included,
against the rightmost edge the peer has ever offered (`sender_window_reachable`, `emitted_within_offered_window`). -/
namespace Props.C04
open Model.Tcp Props.TcpLemmas


/-- a data segment respects the sender's limits: at most `maxPayload` bytes, and it starts inside the
offered window `[sndUna, sndUna + sndWnd)` and does not run past its right edge -/
def Within (s : Snd) (o : OutSeg) : Prop :=
  o.data = [] ∨ (o.data.length ≤ s.maxPayload ∧ lt o.seq (sndEnd s) = true ∧ o.data.length ≤ sizeS o.seq (sndEnd s))

/-- the limits the send loop works with stay fixed while it runs -/
def SameLimits (s s' : Snd) : Prop := s'.sndUna = s.sndUna ∧ s'.sndWnd = s.sndWnd ∧ s'.maxPayload = s.maxPayload

theorem splitAt_len (wl : List WSeg) (i : Nat) (seg : WSeg) (a : Nat) :
    (splitAt wl i seg a).2.data.length ≤ a ∨ ((splitAt wl i seg a).2 = seg ∧ seg.data.length ≤ a) := by
  unfold splitAt
  split
  · left; simp; omega
  · right; exact ⟨rfl, by omega⟩

theorem splitAt_seq (wl : List WSeg) (i : Nat) (seg : WSeg) (a : Nat) : (splitAt wl i seg a).2.seq = seg.seq := by
  unfold splitAt; split <;> rfl

theorem sendStep_within (e : Ep) (i : Nat) :
    (∀ e', sendStep e i = .stop e' → SameLimits e.snd e'.snd) ∧
    (∀ e' o, sendStep e i = .sent e' o → SameLimits e.snd e'.snd ∧ Within e.snd o) := by
  unfold sendStep
  constructor
  · intro e' he
    split at he
    · cases he; exact ⟨rfl, rfl, rfl⟩
    · split at he
      · cases he; exact ⟨rfl, rfl, rfl⟩
      · simp only at he
        split at he
        · cases he
        · split at he
          · cases he; exact ⟨rfl, rfl, rfl⟩
          · cases he
  · intro e' o he
    split at he
    · cases he
    · split at he
      · cases he
      · simp only at he
        split at he
        · -- FIN: no payload
          rename_i hz
          cases he
          have f := emitAt_frame
          refine ⟨⟨(f _ _ _).2.2.2.1, (f _ _ _).2.2.2.2.1, (f _ _ _).2.2.2.2.2.1⟩, Or.inl ?_⟩
          rw [(f _ _ _).1]
          simpa using hz
        · split at he
          · cases he
          · rename_i hw
            cases he
            have f := emitAt_frame
            refine ⟨⟨(f _ _ _).2.2.2.1, (f _ _ _).2.2.2.2.1, (f _ _ _).2.2.2.2.2.1⟩, Or.inr ?_⟩
            rw [(f _ _ _).1, (f _ _ _).2.1, splitAt_seq]
            simp only [Bool.not_eq_eq_eq_not] at hw
            refine ⟨?_, by simpa using hw, ?_⟩ <;>
            · rcases splitAt_len e.snd.writeList i _ (min (sizeS _ (sndEnd e.snd)) e.snd.maxPayload) with h | h
              · exact Nat.le_trans h (by omega)
              · rw [h.1]; exact Nat.le_trans h.2 (by omega)

theorem SameLimits.trans {a b c : Snd} (h1 : SameLimits a b) (h2 : SameLimits b c) : SameLimits a c :=
  ⟨h2.1.trans h1.1, h2.2.1.trans h1.2.1, h2.2.2.trans h1.2.2⟩

theorem within_of_same {a b : Snd} (h : SameLimits a b) (o : OutSeg) (w : Within b o) : Within a o := by
  unfold Within sndEnd at *
  rw [h.1, h.2.1, h.2.2] at w
  exact w

theorem sendDataLoop_within (fuel : Nat) (e : Ep) (i : Nat) (out : List OutSeg) :
    SameLimits e.snd (sendDataLoop fuel e i out).1.snd ∧
    ∀ o ∈ (sendDataLoop fuel e i out).2, o ∈ out ∨ Within e.snd o := by
  induction fuel generalizing e i out with
  | zero => exact ⟨⟨rfl, rfl, rfl⟩, fun o ho => Or.inl ho⟩
  | succ n ih =>
    unfold sendDataLoop
    have hs := sendStep_within e i
    split
    · rename_i e' heq
      exact ⟨hs.1 _ heq, fun o ho => Or.inl ho⟩
    · rename_i e' o' heq
      have h1 := hs.2 _ _ heq
      have h2 := ih e' (i + 1) (out ++ [o'])
      refine ⟨h1.1.trans h2.1, ?_⟩
      intro o ho
      rcases h2.2 o ho with h | h
      · simp only [List.mem_append, List.mem_singleton] at h
        rcases h with h | h
        · exact Or.inl h
        · subst h; exact Or.inr h1.2
      · exact Or.inr (within_of_same h1.1 o h)

/-- **C04 (sender)**: everything `sendData` transmits -- new data, and what is sent again after a timeout --
carries at most `maxPayload` bytes and lies inside the window the peer offers at that moment -/
theorem sendData_within (e : Ep) : ∀ o ∈ (sendData e).2, Within e.snd o := by
  intro o ho
  have h := sendDataLoop_within (sendFuel e.snd + 1) e e.snd.writeNext []
  unfold sendData at ho
  simp only at ho
  rcases h.2 o ho with h | h
  · simp at h
  · exact h

/-- `maxPayload` never exceeds the peer's MSS nor what the MTU leaves after the largest option block -/
theorem newEp_maxPayload (iss irs sndWnd mss : Nat) (sws : Int) (rcvWnd rws mtu rb sb : Nat) (ts : Bool) (rts : Nat) (sp : Bool) :
    let optLen := if ts && sp then 40 else if ts then 12 else if sp then 36 else 0
    let mp := (newEp iss irs sndWnd mss sws rcvWnd rws mtu rb sb ts rts sp).snd.maxPayload
    mp ≤ mss ∧ (mp ≤ mtu - 40 - optLen ∨ mp = 1) := by
  cases ts <;> cases sp <;> simp only [newEp, Bool.and_self, Bool.false_and, Bool.and_false, Bool.false_eq_true, ↓reduceIte, beq_iff_eq] <;>
    split <;> (try split) <;> omega

/-- the write path: `Write` transmits only within the limits -/
theorem appWrite_within (e : Ep) (d : List Nat) : ∀ o ∈ (appWrite e d).2.2, Within e.snd o := by
  unfold appWrite
  split; simp
  split; simp
  split; simp
  split; simp
  intro o ho
  have := sendData_within (queueWrite e (d.take (e.sndBufSize - e.sndBufUsed))) o ho
  exact this

/-- the timeout path: the retransmission timer transmits only within the limits -/
theorem timerEvent_within (e : Ep) : ∀ o ∈ (timerEvent e).2, Within e.snd o := by
  unfold timerEvent
  split; simp
  unfold retransmitTimerExpired
  split; simp
  intro o ho
  have h := sendData_within { e with snd := rtoState e.snd } o ho
  have hl : SameLimits e.snd (rtoState e.snd) := by
    unfold rtoState
    simp only
    split <;> exact ⟨rfl, rfl, rfl⟩
  exact within_of_same hl o h

/-! ## the stack's own window -/

/-- **C04 (receiver)**: the right edge `rcvAcc` promised to the peer never moves left: `getSendParams`
leaves it or moves it to `rcvNxt + free buffer` when that is further right (windows below 2^31) -/
theorem getSendParams_edge_monotone (e : Ep)
    (ha : sizeS e.rcv.rcvNxt e.rcv.rcvAcc < 2147483648) (hn : receiveBufferAvailable e < 2147483648) :
    sizeS e.rcv.rcvNxt (getSendParams e).1.rcv.rcvAcc = max (sizeS e.rcv.rcvNxt e.rcv.rcvAcc) (receiveBufferAvailable e) := by
  unfold getSendParams
  simp only
  split
  · rename_i h
    rw [lt_iff] at h
    simp only
    unfold sizeS addS M at *
    omega
  · rename_i h
    rw [lt_iff] at h
    unfold sizeS addS M at *
    omega

/-- the window field put on the wire is the promised window shifted right by the scale ... -/
theorem getSendParams_window (e : Ep) :
    (getSendParams e).2.2 = (sizeS e.rcv.rcvNxt (getSendParams e).1.rcv.rcvAcc) >>> e.rcv.rcvWndScale := by
  unfold getSendParams
  simp only
  split <;> rfl

/-- ... so the edge the peer computes from it, `ack + (wnd << scale)`, is the promised edge rounded down to a
multiple of 2^scale: it never exceeds the promise and falls short of it by less than 2^scale.
KNOWN FINDING (c04.advertised-edge-truncated-by-scale): because of the rounding the advertised edge can move
LEFT by up to 2^scale - 1 when `rcvNxt` advances by a non-multiple of 2^scale (F04). -/
theorem advertised_edge_truncation (x s : Nat) : (x >>> s) <<< s ≤ x ∧ x < (x >>> s) <<< s + 2 ^ s := by
  rw [Nat.shiftRight_eq_div_pow, Nat.shiftLeft_eq]
  have hp : 0 < 2 ^ s := Nat.two_pow_pos s
  have h1 := Nat.div_mul_le_self x (2 ^ s)
  have h2 := Nat.div_add_mod x (2 ^ s)
  have h3 := Nat.mod_lt x hp
  rw [Nat.mul_comm] at h2
  exact ⟨h1, by omega⟩

/-- the finding, concretely: promised edge 1000+65536, scale 2; after one byte the advertised edge is 3 lower -/
theorem advertised_edge_moves_left_witness :
    let adv := fun (nxt acc : Nat) => nxt + ((acc - nxt) >>> 2) <<< 2
    adv 1000 66536 = 66536 ∧ adv 1001 66536 = 66533 := by decide

/-! ## acceptance -/

theorem sendAck_frame (e : Ep) : (sendAck e).1.rcvList = e.rcvList ∧ (sendAck e).1.rcv.rcvNxt = e.rcv.rcvNxt := by
  have h := sendSegment_frame e [] fAck e.snd.sndNxt
  exact ⟨h.2.2.2.1, h.2.2.2.2.1⟩

/-- consuming only ever appends to the receive list -/
theorem consumeSegment_appends (e : Ep) (fl sq : Nat) (d : List Nat) :
    ∃ t, (consumeSegment e fl sq d).1.rcvList = e.rcvList ++ t := by
  unfold consumeSegment
  split
  · exact ⟨[], by simp⟩
  · rename_i sq' d' _
    have hd : ∃ t, (advanceRcv (deliver e d') (addS sq' d'.length)).rcvList = e.rcvList ++ t := by
      unfold advanceRcv deliver
      split
      · exact ⟨[d'], rfl⟩
      · exact ⟨[], by simp⟩
    split
    · simp only [consumeFin]
      rw [(sendAck_frame _).1]
      exact hd
    · exact hd

theorem drainPending_appends (fuel : Nat) (e : Ep) (out : List OutSeg) :
    ∃ t, (drainPending fuel e out).1.rcvList = e.rcvList ++ t := by
  induction fuel generalizing e out with
  | zero => exact ⟨[], by simp [drainPending]⟩
  | succ n ih =>
    unfold drainPending
    split
    · exact ⟨[], by simp⟩
    · split
      · exact ⟨[], by simp⟩
      · rename_i s rest _
        split
        · exact ih _ _
        · simp only
          split
          · exact ⟨[], by simp⟩
          · obtain ⟨t1, h1⟩ := consumeSegment_appends e s.flags s.seq s.data
            obtain ⟨t2, h2⟩ := ih (if (consumeSegment e s.flags s.seq s.data).1.rcv.closed then (consumeSegment e s.flags s.seq s.data).1
                else (consumeSegment e s.flags s.seq s.data).1.popPending s rest) (out ++ (consumeSegment e s.flags s.seq s.data).2.2)
            refine ⟨t1 ++ t2, ?_⟩
            rw [h2, ← List.append_assoc, ← h1]
            split <;> rfl

/-- **C04**: in-order data inside the advertised window is accepted and delivered: the receive list grows by
exactly that segment's bytes first (segments parked earlier may follow) -/
theorem inorder_in_window_delivered (e : Ep) (seg : InSeg)
    (hc : e.rcv.closed = false) (hseq : seg.seq = e.rcv.rcvNxt) (hl : 0 < seg.data.length)
    (hw : seg.data.length ≤ sizeS e.rcv.rcvNxt e.rcv.rcvAcc)
    (hlim : sizeS e.rcv.rcvNxt e.rcv.rcvAcc < 2147483648) (hfin : has seg.flags fFin = false) :
    ∃ t, (rcvHandleSegment e seg).1.rcvList = e.rcvList ++ [seg.data] ++ t := by
  have hacc : acceptable e.rcv seg.seq seg.data.length = true := by
    unfold acceptable
    simp only
    split
    · rename_i h; simp at h; omega
    · rw [hseq, Bool.or_eq_true]; left
      rw [inWindow_iff, sizeS_self]
      omega
  have htrim : trimToNew e.rcv seg.seq seg.data = some (seg.seq, seg.data) := by
    unfold trimToNew
    have h1 : inWindow e.rcv.rcvNxt seg.seq seg.data.length = true := by
      rw [hseq, inWindow_iff, sizeS_self]; omega
    have h2 : lt seg.seq e.rcv.rcvNxt = false := by
      rw [hseq]
      cases h : lt e.rcv.rcvNxt e.rcv.rcvNxt
      · rfl
      · rw [lt_iff, sizeS_self] at h; omega
    simp [hl, h1, h2]
  have hcons : (consumeSegment e seg.flags seg.seq seg.data).2.1 = true ∧
      (consumeSegment e seg.flags seg.seq seg.data).1.rcvList = e.rcvList ++ [seg.data] := by
    unfold consumeSegment
    rw [htrim]
    simp [hfin, advanceRcv, deliver, hl]
  unfold rcvHandleSegment
  simp only [hc, Bool.false_eq_true, ↓reduceIte, hacc, Bool.not_true, hcons.1]
  obtain ⟨t, ht⟩ := drainPending_appends ((consumeSegment e seg.flags seg.seq seg.data).1.rcv.pending.length + 1)
    (consumeSegment e seg.flags seg.seq seg.data).1 (consumeSegment e seg.flags seg.seq seg.data).2.2
  exact ⟨t, by rw [ht, hcons.2]⟩

/-- **C04**: data wholly outside the window is never delivered (it is answered by an ACK and dropped) -/
theorem outside_window_not_delivered (e : Ep) (seg : InSeg)
    (h : acceptable e.rcv seg.seq seg.data.length = false) : (rcvHandleSegment e seg).1.rcvList = e.rcvList := by
  unfold rcvHandleSegment
  split
  · rfl
  · simp only [h, Bool.not_false, ↓reduceIte]
    exact (sendAck_frame e).1

/-- **C04**: when the application's reads reopen a window that was advertised as closed, an ACK announcing the
new window goes out at once (`notifyNonZeroReceiveWindow` → `nonZeroWindow`) -/
theorem window_reopens_on_read (e : Ep) (v : List Nat) (rest : List (List Nat))
    (hs : e.state = .connected) (hd : e.done = false) (hl : e.rcvList = v :: rest) (hu : e.rcvBufUsed ≠ 0)
    (hz : zeroReceiveWindow e e.rcvBufUsed = true)
    (hnz : zeroReceiveWindow (popRead e v rest) (popRead e v rest).rcvBufUsed = false)
    (hadv : (sizeS e.rcv.rcvNxt e.rcv.rcvAcc) >>> e.rcv.rcvWndScale = 0) :
    ∃ o, (appRead e).2.2 = [o] ∧ o.flags = fAck ∧ (appRead e).2.1 = .ok v := by
  have hd1 : (popRead e v rest).done = false := hd
  have hadv1 : (sizeS (popRead e v rest).rcv.rcvNxt (popRead e v rest).rcv.rcvAcc) >>> (popRead e v rest).rcv.rcvWndScale = 0 := hadv
  unfold appRead
  simp only [hs, hl]
  simp [hu, hz, hnz, hd1, hadv1]
  exact (sendSegment_out (popRead e v rest) [] fAck (popRead e v rest).snd.sndNxt).2.2.1

/-- non-vacuity: a concrete sender whose next segment is cut to the window (window 5, 8 bytes queued) -/
example :
    let s : Snd := { sndUna := 100, sndNxt := 100, sndNxtList := 108, sndWnd := 5, maxPayload := 1460, maxSentAck := 1,
                     writeList := [{ data := [1, 2, 3, 4, 5, 6, 7, 8] }] }
    let e : Ep := { snd := s, rcv := { rcvNxt := 1, rcvAcc := 1000, pendingBufSize := 100 }, rcvBufSize := 1000, sndBufSize := 1000 }
    ((sendData e).2.map (·.data)) = [[1, 2, 3, 4, 5]] := by decide

end Props.C04
