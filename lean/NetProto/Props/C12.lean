import NetProto.Generated.Consts
import NetProto.Model.Neigh
import NetProto.Spec.Rfc
/-!
# C12 — neighbour resolution: ARP answers, learning, the cache, the retry budget
-/
set_option maxRecDepth 10000
namespace C12
open Model.Neigh

/-- the numbers the property names are the ones in the source now: 512 entries, 3 attempts, 1 s apart, 1 min age -/
theorem constants_anchor :
    Gen.Consts.linkAddrCacheSize = 512 ∧ Gen.Consts.resolutionAttempts = 3 ∧
    Gen.Consts.resolutionTimeout = 1000000000 ∧ Gen.Consts.ageLimit = 60000000000 := by decide

/-! ## ARP -/

/-- **a reply is produced iff the packet is a valid request whose target is one of our addresses** -/
theorem arp_reply_iff_own (pkt : List Nat) (isLocal : Addr → Bool) (ourMac fromMac : Mac) :
    (arpHandle pkt isLocal ourMac fromMac).reply.isSome = true ↔
      (Model.Header.arpIsValid pkt = true ∧ Model.Header.rd16 pkt 6 = 1 ∧ isLocal ((pkt.drop 24).take 4) = true) := by
  unfold arpHandle
  by_cases hv : Model.Header.arpIsValid pkt = true
  · simp only [hv, Bool.not_true, Bool.false_eq_true, if_false, true_and]
    by_cases h1 : Model.Header.rd16 pkt 6 = 1
    · simp only [h1, beq_self_eq_true, if_true, true_and]
      by_cases hl : isLocal ((pkt.drop 24).take 4) = true
      · simp [hl]
      · simp [hl]
    · have : (Model.Header.rd16 pkt 6 == 1) = false := by simpa using h1
      simp only [this, Bool.false_eq_true, if_false, h1, false_and, iff_false]
      split <;> simp
  · have : Model.Header.arpIsValid pkt = false := by simpa using hv
    simp [this]

/-- the reply carries our link address as sender, the requested address as sender protocol address,
    the requester's addresses as target, opcode 2, and goes to the link address the request came from -/
theorem arp_reply_fields (pkt : List Nat) (isLocal : Addr → Bool) (ourMac fromMac : Mac) (b : List Nat) (to : Mac)
    (hm : ourMac.length = 6) (hl : 28 ≤ pkt.length)
    (h : (arpHandle pkt isLocal ourMac fromMac).reply = some (b, to)) :
    to = fromMac ∧
    Spec.Rfc.decodeARP b = some ⟨1, 0x0800, 6, 4, 2, ourMac, (pkt.drop 24).take 4, (pkt.drop 8).take 6, (pkt.drop 14).take 4⟩ := by
  have hsome : (arpHandle pkt isLocal ourMac fromMac).reply.isSome = true := by rw [h]; rfl
  obtain ⟨hv, h1, hloc⟩ := (arp_reply_iff_own pkt isLocal ourMac fromMac).mp hsome
  unfold arpHandle at h
  simp only [hv, Bool.not_true, Bool.false_eq_true, if_false, h1, beq_self_eq_true, if_true, hloc,
    Option.some.injEq, Prod.mk.injEq] at h
  obtain ⟨rfl, rfl⟩ := h
  refine ⟨rfl, ?_⟩
  obtain ⟨m0, m1, m2, m3, m4, m5, rfl⟩ : ∃ m0 m1 m2 m3 m4 m5, ourMac = [m0, m1, m2, m3, m4, m5] := by
    match ourMac, hm with
    | [m0, m1, m2, m3, m4, m5], _ => exact ⟨_, _, _, _, _, _, rfl⟩
  have h4 : ((pkt.drop 24).take 4).length = 4 := by simp; omega
  have h6 : ((pkt.drop 8).take 6).length = 6 := by simp; omega
  have h4' : ((pkt.drop 14).take 4).length = 4 := by simp; omega
  generalize (pkt.drop 24).take 4 = tpa at *
  generalize (pkt.drop 8).take 6 = sha at *
  generalize (pkt.drop 14).take 4 = spa at *
  obtain ⟨t0, t1, t2, t3, rfl⟩ : ∃ t0 t1 t2 t3, tpa = [t0, t1, t2, t3] := by
    match tpa, h4 with
    | [t0, t1, t2, t3], _ => exact ⟨_, _, _, _, rfl⟩
  obtain ⟨s0, s1, s2, s3, s4, s5, rfl⟩ : ∃ s0 s1 s2 s3 s4 s5, sha = [s0, s1, s2, s3, s4, s5] := by
    match sha, h6 with
    | [s0, s1, s2, s3, s4, s5], _ => exact ⟨_, _, _, _, _, _, rfl⟩
  obtain ⟨p0, p1, p2, p3, rfl⟩ : ∃ p0 p1 p2 p3, spa = [p0, p1, p2, p3] := by
    match spa, h4' with
    | [p0, p1, p2, p3], _ => exact ⟨_, _, _, _, rfl⟩
  simp [Model.Header.arpBuild, Model.Header.setAt, Model.Header.be16, Spec.Rfc.decodeARP, Spec.Rfc.beVal]

/-- **learning**: the sender's mapping is learned from replies and from requests addressed to us — and
    from nothing else (not from requests for other hosts, not from malformed packets) -/
theorem arp_learns_iff (pkt : List Nat) (isLocal : Addr → Bool) (ourMac fromMac : Mac) :
    (arpHandle pkt isLocal ourMac fromMac).learn.isSome = true ↔
      (Model.Header.arpIsValid pkt = true ∧
        (Model.Header.rd16 pkt 6 = 2 ∨ (Model.Header.rd16 pkt 6 = 1 ∧ isLocal ((pkt.drop 24).take 4) = true))) := by
  unfold arpHandle
  by_cases hv : Model.Header.arpIsValid pkt = true
  · simp only [hv, Bool.not_true, Bool.false_eq_true, if_false, true_and]
    by_cases h1 : Model.Header.rd16 pkt 6 = 1
    · simp only [h1, beq_self_eq_true, if_true]
      by_cases hl : isLocal ((pkt.drop 24).take 4) = true <;> simp [hl]
    · have e1 : (Model.Header.rd16 pkt 6 == 1) = false := by simpa using h1
      simp only [e1, Bool.false_eq_true, if_false, h1, false_and, or_false]
      by_cases h2 : Model.Header.rd16 pkt 6 = 2
      · simp [h2]
      · have e2 : (Model.Header.rd16 pkt 6 == 2) = false := by simpa using h2
        simp [e2, h2]
  · have : Model.Header.arpIsValid pkt = false := by simpa using hv
    simp [this]

theorem arp_learns_sender (pkt : List Nat) (isLocal : Addr → Bool) (ourMac fromMac : Mac) (a : Addr) (m : Mac)
    (h : (arpHandle pkt isLocal ourMac fromMac).learn = some (a, m)) :
    a = (pkt.drop 14).take 4 ∧ m = (pkt.drop 8).take 6 := by
  have hsome : (arpHandle pkt isLocal ourMac fromMac).learn.isSome = true := by rw [h]; rfl
  obtain ⟨hv, hcase⟩ := (arp_learns_iff pkt isLocal ourMac fromMac).mp hsome
  unfold arpHandle at h
  rcases hcase with h2 | ⟨h1, hloc⟩
  · have e21 : ((2 : Nat) == 1) = false := by decide
    simp only [hv, Bool.not_true, Bool.false_eq_true, if_false, h2, e21, beq_self_eq_true, if_true,
      Option.some.injEq, Prod.mk.injEq] at h
    exact ⟨h.1.symm, h.2.symm⟩
  · simp only [hv, Bool.not_true, Bool.false_eq_true, if_false, h1, beq_self_eq_true, if_true, hloc,
      Option.some.injEq, Prod.mk.injEq] at h
    exact ⟨h.1.symm, h.2.symm⟩

/-! ## the entry state machine never takes a forbidden transition (the `panic`s are unreachable) -/

theorem changeState_to_expired (e : Entry) : (changeState e .expired).isSome = true := by
  unfold changeState
  cases h : e.st <;> simp

theorem changeState_from_incomplete (e : Entry) (ns : EState) (h : e.st = .incomplete) :
    (changeState e ns).isSome = true := by
  unfold changeState
  by_cases h2 : (e.st == ns) = true
  · simp [h2]
  · simp only [h2, Bool.false_eq_true, if_false, h]
    split <;> simp

theorem pair_unique {α β : Type} (l : List (α × β)) (hnd : (l.map (·.1)).Nodup) (a : α) (b c : β)
    (hb : (a, b) ∈ l) (hc : (a, c) ∈ l) : b = c := by
  induction l with
  | nil => simp at hb
  | cons x t ih =>
    simp only [List.map_cons, List.nodup_cons] at hnd
    simp only [List.mem_cons] at hb hc
    rcases hb with rfl | hb <;> rcases hc with hc | hc
    · have := hc; simp at this; exact this.symm
    · exact absurd (List.mem_map.mpr ⟨(a, c), hc, rfl⟩) hnd.1
    · subst hc; exact absurd (List.mem_map.mpr ⟨(a, b), hb, rfl⟩) hnd.1
    · exact ih hnd.2 hb hc

/-- well-formed cache: the ring has `size` slots and `next` points into it -/
structure WFc (c : Cache) : Prop where
  len : c.slots.length = c.size
  pos : 0 < c.size
  nxt : c.next < c.size
  /-- the map points into the ring and every mapped slot holds the key it is filed under -/
  keys : ∀ p ∈ c.map, p.2 < c.size ∧ (c.slots.getD p.2 {}).key = p.1
  uniq : (c.map.map (·.1)).Nodup

theorem wf_init (size age timeout attempts : Nat) (h : 0 < size) : WFc (Cache.init size age timeout attempts) := by
  refine ⟨by simp [Cache.init], h, h, ?_, ?_⟩
  · intro p hp; simp [Cache.init] at hp
  · simp [Cache.init]

theorem lookup_mem (c : Cache) (k : Key) (i : Nat) (h : c.lookup k = some i) : (k, i) ∈ c.map := by
  unfold Cache.lookup at h
  simp only [Option.map_eq_some_iff] at h
  obtain ⟨p, hp, rfl⟩ := h
  have hm := List.mem_of_find?_eq_some hp
  have hk := List.find?_some hp
  simp only [beq_iff_eq] at hk
  obtain ⟨a, b⟩ := p
  simp only at hk
  subst hk
  exact hm

/-- `makeAndAddEntry` never panics and keeps the cache well-formed; the new entry sits at the slot the map
    now gives for `k` -/
theorem makeAndAdd_wf (c : Cache) (k : Key) (v : Mac) (h : WFc c) :
    ∃ c' i outs, c.makeAndAdd k v = some (c', i, outs) ∧ WFc c' ∧ c'.lookup k = some i ∧
      (c'.slots.getD i {}).key = k ∧ (c'.slots.getD i {}).st = .incomplete ∧ (c'.slots.getD i {}).link = v ∧
      c'.now = c.now ∧ c'.size = c.size ∧ c'.attempts = c.attempts ∧ c'.timeout = c.timeout := by
  unfold Cache.makeAndAdd
  have hlt : c.next < c.slots.length := by rw [h.len]; exact h.nxt
  simp only [List.getElem?_eq_getElem hlt]
  obtain ⟨r, hr⟩ := Option.isSome_iff_exists.mp (changeState_to_expired c.slots[c.next])
  obtain ⟨e', outs⟩ := r
  simp only [hr]
  refine ⟨_, _, _, rfl, ?_, ?_, ?_, ?_, ?_, rfl, rfl, rfl, rfl⟩
  · -- well-formedness
    have hmod : (c.next + 1) % c.size < c.size := Nat.mod_lt _ h.pos
    refine ⟨by simp [h.len], h.pos, hmod, ?_, ?_⟩
    · intro p hp
      simp only [List.mem_cons, List.mem_filter] at hp
      rcases hp with rfl | ⟨hp, hpk⟩
      · simp [h.nxt, List.getD, hlt]
      · -- an older mapping that survived both filters
        have hp0 : p ∈ c.map := by
          split at hp
          · exact (List.mem_filter.mp hp).1
          · exact hp
        obtain ⟨hb, hkey⟩ := h.keys p hp0
        refine ⟨hb, ?_⟩
        by_cases hpi : p.2 = c.next
        · -- it pointed at the recycled slot: then its key was the old key, and the first filter removed it
          exfalso
          have hold : c.slots[c.next].key = p.1 := by
            have := hkey; rw [hpi] at this; simpa [List.getD, hlt] using this
          have hl : c.lookup c.slots[c.next].key = some c.next := by
            unfold Cache.lookup
            rw [hold]
            have : ∃ q, c.map.find? (fun x => x.1 == p.1) = some q := by
              rw [← Option.isSome_iff_exists, List.find?_isSome]
              exact ⟨p, hp0, by simp⟩
            obtain ⟨q, hq⟩ := this
            have hqm := List.mem_of_find?_eq_some hq
            have hqk := List.find?_some hq
            simp only [beq_iff_eq] at hqk
            -- unique keys: q = p
            have : q = p := by
              have hnd := h.uniq
              obtain ⟨q1, q2⟩ := q
              obtain ⟨p1, p2⟩ := p
              simp only at hqk
              subst hqk
              have := pair_unique c.map hnd q1 q2 p2 hqm hp0
              rw [this]
            rw [hq, this]; simp [hpi]
          simp only [hl, beq_self_eq_true, if_true] at hp
          have := (List.mem_filter.mp hp).2
          simp [hold] at this
        · simp only [List.getD] at hkey ⊢
          rw [List.getElem?_set_ne (fun e => hpi e.symm)]
          exact hkey
    · simp only [List.map_cons, List.nodup_cons]
      refine ⟨?_, ?_⟩
      · intro hmem
        simp only [List.mem_map, List.mem_filter] at hmem
        obtain ⟨q, ⟨_, hq⟩, hqk⟩ := hmem
        simp [hqk] at hq
      · apply List.Nodup.sublist _ h.uniq
        apply List.Sublist.map
        split
        · exact (List.filter_sublist).trans List.filter_sublist
        · exact List.filter_sublist
  · simp [Cache.lookup]
  · simp [List.getD, hlt]
  · simp [List.getD, hlt]
  · simp [List.getD, hlt]

theorem changeState_key (e : Entry) (ns : EState) (e' : Entry) (o : List Out) (h : changeState e ns = some (e', o)) :
    e'.key = e.key ∧ e'.link = e.link ∧ e'.exp = e.exp ∧ e'.st = ns := by
  unfold changeState at h
  split at h
  · rename_i heq
    simp only [Option.some.injEq, Prod.mk.injEq] at h
    obtain ⟨rfl, _⟩ := h
    exact ⟨rfl, rfl, rfl, by simpa using heq⟩
  · split at h
    · simp only [Option.some.injEq, Prod.mk.injEq] at h
      obtain ⟨rfl, _⟩ := h
      exact ⟨rfl, rfl, rfl, rfl⟩
    · split at h
      · simp only [Option.some.injEq, Prod.mk.injEq] at h
        obtain ⟨rfl, _⟩ := h
        rename_i hns
        exact ⟨rfl, rfl, rfl, by simpa using hns⟩
      · simp at h
    · split at h
      · simp only [Option.some.injEq, Prod.mk.injEq] at h
        obtain ⟨rfl, _⟩ := h
        rename_i hns
        exact ⟨rfl, rfl, rfl, by simpa using hns⟩
      · simp at h
    · simp at h

theorem setSlot_wf (c : Cache) (i : Nat) (e : Entry) (h : WFc c) (hk : e.key = (c.slots.getD i {}).key) :
    WFc (c.setSlot i e) := by
  refine ⟨by simp [Cache.setSlot, h.len], h.pos, h.nxt, ?_, h.uniq⟩
  intro p hp
  obtain ⟨hb, hkey⟩ := h.keys p hp
  refine ⟨hb, ?_⟩
  simp only [Cache.setSlot, List.getD] at hkey hk ⊢
  by_cases hpi : i = p.2
  · have hlt : p.2 < c.slots.length := by rw [h.len]; exact hb
    rw [hpi] at hk ⊢
    simp only [List.getElem?_set_self hlt, Option.getD_some]
    rw [hk]; exact hkey
  · rw [List.getElem?_set_ne hpi]; exact hkey

theorem cancel_wf (c : Cache) (h : WFc c) : WFc c.cancel :=
  ⟨h.len, h.pos, h.nxt, h.keys, h.uniq⟩

/-- the lazy expiry never panics and keeps the cache well-formed -/
theorem touch_wf (c : Cache) (i : Nat) (h : WFc c) :
    ∃ c' o, c.touch i = some (c', o) ∧ WFc c' ∧ c'.map = c.map ∧ c'.now = c.now ∧ c'.size = c.size ∧
      c'.attempts = c.attempts ∧ c'.timeout = c.timeout ∧
      (∀ j, (c'.slots.getD j {}).key = (c.slots.getD j {}).key) := by
  unfold Cache.touch
  cases he : c.slots[i]? with
  | none => exact ⟨c, [], rfl, h, rfl, rfl, rfl, rfl, rfl, fun _ => rfl⟩
  | some e =>
    simp only
    split
    · obtain ⟨r, hr⟩ := Option.isSome_iff_exists.mp (changeState_to_expired e)
      obtain ⟨e', o⟩ := r
      have hk := (changeState_key e .expired e' o hr).1
      have hei : (c.slots.getD i {}).key = e.key := by simp [List.getD, he]
      refine ⟨c.setSlot i e', o, by simp [hr], setSlot_wf c i e' h (by rw [hk, hei]), rfl, rfl, rfl, rfl, rfl, ?_⟩
      intro j
      simp only [Cache.setSlot, List.getD]
      by_cases hji : j = i
      · subst hji
        have hlt : j < c.slots.length := by
          rcases Nat.lt_or_ge j c.slots.length with hl | hl
          · exact hl
          · simp [List.getElem?_eq_none hl] at he
        simp only [List.getElem?_set_self hlt, Option.getD_some, he]
        exact hk
      · rw [List.getElem?_set_ne (fun e => hji e.symm)]
    · exact ⟨c, [], rfl, h, rfl, rfl, rfl, rfl, rfl, fun _ => rfl⟩

/-- **`add` never panics** (whatever state the existing entry is in) and keeps the cache well-formed:
    in particular every mapped slot still holds the key it is filed under — overwrites with a new
    link address and ring overflow included -/
theorem add_total_wf (c : Cache) (k : Key) (v : Mac) (h : WFc c) :
    ∃ c' o, c.add k v = some (c', o) ∧ WFc c' := by
  have fresh : ∀ (c0 : Cache) (o0 : List Out), WFc c0 →
      ∃ c' o, (match c0.makeAndAdd k v with
        | none => none
        | some (c1, i, o1) =>
          match c1.slots[i]? with
          | none => none
          | some e => (changeState e .ready).map fun (e', o2) => ((c1.setSlot i e').cancel, o0 ++ o1 ++ o2)) = some (c', o) ∧ WFc c' := by
    intro c0 o0 h0
    obtain ⟨c1, i, o1, hm, hw1, hl1, hk1, hs1, _⟩ := makeAndAdd_wf c0 k v h0
    simp only [hm]
    have hi : i < c1.slots.length := by
      have := (hw1.keys (k, i) (lookup_mem c1 k i hl1)).1
      rw [hw1.len]; exact this
    simp only [List.getElem?_eq_getElem hi]
    have hst : c1.slots[i].st = .incomplete := by simpa [List.getD, hi] using hs1
    obtain ⟨r, hr⟩ := Option.isSome_iff_exists.mp (changeState_from_incomplete c1.slots[i] .ready hst)
    obtain ⟨e', o2⟩ := r
    have hk := (changeState_key _ _ _ _ hr).1
    refine ⟨_, _, by rw [hr]; rfl, cancel_wf _ (setSlot_wf c1 i e' hw1 ?_)⟩
    rw [hk]; simp [List.getD, hi]
  unfold Cache.add
  simp only
  cases hl : c.lookup k with
  | none => exact fresh c [] h
  | some i =>
    simp only
    obtain ⟨c0, o0, ht, hw0, hmap, _, _, _, _, hkeys⟩ := touch_wf c i h
    simp only [ht]
    have hi : i < c0.slots.length := by
      have := (h.keys (k, i) (lookup_mem c k i hl)).1
      rw [hw0.len]; have := hw0.len; omega
    have hi' : i < c.size := (h.keys (k, i) (lookup_mem c k i hl)).1
    have hsz : c0.slots.length = c0.size := hw0.len
    simp only [List.getElem?_eq_getElem hi]
    split
    · exact ⟨_, _, rfl, cancel_wf _ hw0⟩
    · split
      · rename_i hinc
        have hst : ({ c0.slots[i] with link := v } : Entry).st = .incomplete := by simpa using hinc
        obtain ⟨r, hr⟩ := Option.isSome_iff_exists.mp (changeState_from_incomplete _ .ready hst)
        obtain ⟨e', o2⟩ := r
        have hk := (changeState_key _ _ _ _ hr).1
        refine ⟨_, _, by rw [hr]; rfl, cancel_wf _ (setSlot_wf c0 i e' hw0 ?_)⟩
        rw [hk]; simp [List.getD, hi]
      · exact fresh c0 o0 hw0

/-- **the retry budget**: when a resolution timer fires on a still-incomplete entry, either this was
    the last attempt and the entry becomes `failed` (waiters are woken; lookups then report "no link
    address"), or exactly one more request is broadcast and one more timer armed -/
theorem fire_budget (c : Cache) (r : Res) (i : Nat) (e : Entry) (h : WFc c)
    (hl : ({ c with pending := c.pending.filter (· != r) } : Cache).lookup r.key = some i)
    (he : c.slots[i]? = some e) (hst : e.st = .incomplete) (hexp : ¬ c.now > e.exp) :
    (r.attempt + 1 ≥ c.attempts →
        ∃ c' o, c.fire r = some (c', o) ∧ (c'.slots.getD i {}).st = .failed ∧ (c'.slots.getD i {}).key = e.key ∧
          ∀ x ∈ o, ∃ kk n, x = Out.wake kk n) ∧
    (r.attempt + 1 < c.attempts →
        ∃ c', c.fire r = some (c', [Out.request r.key r.localAddr r.proto]) ∧
          { r with attempt := r.attempt + 1, deadline := r.deadline + c.timeout } ∈ c'.pending) := by
  have hlt : i < c.slots.length := by
    rcases Nat.lt_or_ge i c.slots.length with hh | hh
    · exact hh
    · simp [List.getElem?_eq_none hh] at he
  have hge : c.slots[i] = e := by
    have := List.getElem?_eq_getElem hlt; rw [this] at he; simpa using he
  have htouch : ({ c with pending := c.pending.filter (· != r) } : Cache).touch i =
      some ({ c with pending := c.pending.filter (· != r) }, []) := by
    unfold Cache.touch
    simp only [he]
    have : ¬ (e.st != .expired && decide (c.now > e.exp)) = true := by simp [hexp]
    simp [this]
  constructor
  · intro hlast
    unfold Cache.fire
    simp only [hl, htouch, he, hst, hlast, if_true]
    obtain ⟨rr, hr⟩ := Option.isSome_iff_exists.mp (changeState_from_incomplete e .failed hst)
    obtain ⟨e', o⟩ := rr
    obtain ⟨k1, _, _, k4⟩ := changeState_key _ _ _ _ hr
    refine ⟨_, _, by rw [hr]; rfl, ?_, ?_, ?_⟩
    · simp [Cache.cancel, Cache.setSlot, List.getD, hlt, k4]
    · simp [Cache.cancel, Cache.setSlot, List.getD, hlt, k1]
    · intro x hx
      simp only [List.nil_append] at hx
      unfold changeState at hr
      have hne : ¬ (e.st == EState.failed) = true := by simp [hst]
      simp only [hne, Bool.false_eq_true, if_false, hst, Option.some.injEq, Prod.mk.injEq] at hr
      obtain ⟨_, rfl⟩ := hr
      split at hx
      · simp at hx; exact ⟨_, _, hx⟩
      · simp at hx
  · intro hmore
    unfold Cache.fire
    have : ¬ r.attempt + 1 ≥ c.attempts := by omega
    simp only [hl, htouch, he, hst, this, if_false]
    exact ⟨_, rfl, by simp⟩

/-- **a lookup reports a link address only from a ready, unexpired entry filed under exactly the key
    asked for** — never an entry for a different address, never after expiry -/
theorem get_sound (c : Cache) (k : Key) (la : Addr) (p : Nat) (c' : Cache) (m : Mac) (o : List Out) (h : WFc c)
    (hg : c.get k none true la p = some (c', .addr m, o)) :
    ∃ i e, c.lookup k = some i ∧ c.slots[i]? = some e ∧ e.key = k ∧ e.link = m ∧ e.st = .ready ∧ c.now ≤ e.exp := by
  unfold Cache.get at hg
  simp only at hg
  cases hl : c.lookup k with
  | none =>
    simp only [hl] at hg
    -- a fresh resolution never answers with an address
    split at hg
    · simp at hg
    · split at hg
      · simp at hg
      · split at hg
        · simp at hg
        · simp at hg
  | some i =>
    simp only [hl] at hg
    have hmem := lookup_mem c k i hl
    obtain ⟨hb, hkey⟩ := h.keys (k, i) hmem
    have hlt : i < c.slots.length := by rw [h.len]; exact hb
    unfold Cache.touch at hg
    simp only [List.getElem?_eq_getElem hlt] at hg
    by_cases hexp : (c.slots[i].st != .expired && decide (c.now > c.slots[i].exp)) = true
    · -- lazily expired now: the lookup starts a new resolution, it cannot answer with an address
      simp only [hexp, if_true] at hg
      obtain ⟨rr, hr⟩ := Option.isSome_iff_exists.mp (changeState_to_expired c.slots[i])
      obtain ⟨e', oo⟩ := rr
      have hst := (changeState_key _ _ _ _ hr).2.2.2
      simp only [hr, Option.map_some] at hg
      simp only [Cache.setSlot, List.getElem?_set_self hlt, hst] at hg
      split at hg
      · simp at hg
      · split at hg
        · simp at hg
        · split at hg
          · simp at hg
          · simp at hg
    · simp only [hexp, Bool.false_eq_true, if_false, List.getElem?_eq_getElem hlt] at hg
      cases hs : c.slots[i].st with
      | ready =>
        simp only [hs, Option.some.injEq, Prod.mk.injEq, GetRes.addr.injEq] at hg
        refine ⟨i, c.slots[i], rfl, List.getElem?_eq_getElem hlt, ?_, hg.2.1, hs, ?_⟩
        · simpa [List.getD, hlt] using hkey
        · simp [hs] at hexp; omega
      | incomplete => simp [hs] at hg
      | failed => simp [hs] at hg
      | expired =>
        simp only [hs] at hg
        split at hg
        · simp at hg
        · split at hg
          · simp at hg
          · split at hg
            · simp at hg
            · simp at hg

/-- non-vacuity: resolve, answer, look up again, let it expire -/
example :
    let c0 := Cache.init 4 600 100 3
    let r1 := c0.get ⟨1, [10, 0, 0, 9]⟩ none true [10, 0, 0, 1] 2048
    (r1.map (·.2.1)) = some GetRes.wouldBlock ∧
    ((r1.bind fun x => x.1.add ⟨1, [10, 0, 0, 9]⟩ [2, 0, 0, 0, 0, 9]).bind fun y =>
      (y.1.get ⟨1, [10, 0, 0, 9]⟩ none true [10, 0, 0, 1] 2048).map (·.2.1)) = some (GetRes.addr [2, 0, 0, 0, 0, 9]) := by
  decide

end C12
