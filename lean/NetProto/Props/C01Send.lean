import NetProto.Props.C01
import NetProto.Props.C05
import NetProto.Props.TcpReach
/-! C01, sending direction: every data segment the endpoint transmits -- first transmission, retransmission after a
timeout, fast retransmission, a piece split off to fit the window or the segment size, what is left of an entry after
a partial acknowledgement -- carries, under its sequence number, exactly the bytes `Write` accepted at the stream
offset that sequence number names.

The model carries ghost state that it never reads (`Snd.gW` all bytes accepted, `Snd.gIss1` the sequence number of
offset 0, `Snd.gUna` / `Snd.gNxt` the unbounded offsets `sndUna` / `sndNxt` stand for, `WSeg.gOff` the offset of an
entry's first byte).  `Core` says: the write list is a contiguous cover of the stream from the first unacknowledged
byte to its end; every entry holds the stream's bytes at its offset and, once assigned, the sequence number of that
offset; entries before the frontier `gNxt` are assigned and end at or before it.  `SInv` adds that the entry
`writeNext` points at does not lie beyond the frontier.  The invariant is proved for every handler
(`send_inv`), lifted to every reachable stack state (`sender_invariant_reachable`), and every emission is shown good
(`emitted_data_is_the_written_stream`).  Standing assumptions, as for the receiving direction: the stream is shorter
than 2^31 bytes; the negotiated segment size is not zero. -/
namespace Props.C01
open Model.Tcp Props.TcpLemmas

/-! ## sender side -/

/-- the write-list entries are contiguous pieces of the byte stream from offset `o` up to offset `e`; an entry
without data (the FIN) can only be the last one -/
def contig : Nat → List WSeg → Nat → Prop
  | o, [], e => o = e
  | o, x :: t, e => x.gOff = o ∧ (x.data = [] → t = []) ∧ contig (o + x.data.length) t e

/-- the entry's bytes are the bytes of the accepted stream `W` at its offset, and once it has a sequence number
it is the one of that offset -/
def entryOk (W : List Nat) (iss1 : Nat) (x : WSeg) : Prop :=
  x.data = (W.drop x.gOff).take x.data.length ∧ (x.flags ≠ 0 → x.seq = addS iss1 x.gOff)

/-- an entry is unassigned, or a data segment (ACK|PSH), or the FIN (ACK|FIN, no data) -/
def flagsOk (x : WSeg) : Prop :=
  x.flags = 0 ∨ (x.data ≠ [] ∧ x.flags = fAck ||| fPsh) ∨ (x.data = [] ∧ x.flags = fAck ||| fFin)

def headOff (s : Snd) : Nat := match s.writeList with | [] => s.gW.length | x :: _ => x.gOff

/-- stream offset of the write-list entry at index `i` (the end of the stream past the last entry) -/
def offAt (s : Snd) (i : Nat) : Nat := match s.writeList[i]? with | some x => x.gOff | none => s.gW.length

structure Core (s : Snd) : Prop where
  cont : contig (headOff s) s.writeList s.gW.length
  ents : ∀ x ∈ s.writeList, entryOk s.gW s.gIss1 x
  fl : ∀ x ∈ s.writeList, flagsOk x
  una : s.sndUna % 4294967296 = addS s.gIss1 s.gUna
  nxt : s.sndNxt = addS s.gIss1 s.gNxt
  ord : s.gUna ≤ s.gNxt ∧ s.gNxt ≤ s.gW.length + 1
  hd : s.writeList ≠ [] → headOff s = s.gUna
  emp : s.writeList = [] → s.gW.length ≤ s.gUna
  front : ∀ x ∈ s.writeList, x.gOff < s.gNxt → x.flags ≠ 0 ∧ x.gOff + x.data.length ≤ s.gNxt

/-- the sender invariant: `Core`, and the entry `writeNext` points at does not lie beyond `sndNxt` -/
structure SInv (s : Snd) : Prop where
  core : Core s
  wn : offAt s s.writeNext ≤ s.gNxt

/-- what `Core` depends on -/
def ck (s : Snd) : List WSeg × List Nat × Nat × Nat × Nat × Nat × Nat :=
  (s.writeList, s.gW, s.gIss1, s.sndUna, s.sndNxt, s.gUna, s.gNxt)

theorem core_congr {s s' : Snd} (h : ck s' = ck s) (I : Core s) : Core s' := by
  simp only [ck, Prod.mk.injEq] at h
  obtain ⟨h1, h2, h3, h4, h5, h6, h7⟩ := h
  have hh : headOff s' = headOff s := by unfold headOff; rw [h1, h2]
  exact ⟨by rw [hh, h1, h2]; exact I.cont, by rw [h1, h2, h3]; exact I.ents, by rw [h1]; exact I.fl, by rw [h4, h3, h6]; exact I.una,
    by rw [h5, h3, h7]; exact I.nxt, by rw [h6, h7, h2]; exact I.ord, by rw [h1, hh, h6]; exact I.hd,
    by rw [h1, h2, h6]; exact I.emp, by rw [h1, h7]; exact I.front⟩

theorem offAt_congr {s s' : Snd} (h1 : s'.writeList = s.writeList) (h2 : s'.gW = s.gW) (i : Nat) : offAt s' i = offAt s i := by
  unfold offAt; rw [h1, h2]

theorem contig_le : ∀ (o : Nat) (l : List WSeg) (e : Nat), contig o l e → o ≤ e
  | o, [], e, h => by simp [contig] at h; omega
  | o, x :: t, e, h => by
    have := contig_le _ t e h.2.2
    omega

theorem contig_mem : ∀ (o : Nat) (l : List WSeg) (e : Nat), contig o l e → ∀ x ∈ l, o ≤ x.gOff ∧ x.gOff + x.data.length ≤ e
  | o, [], e, _ => by simp
  | o, y :: t, e, h => by
    intro x hx
    rcases List.mem_cons.mp hx with hx | hx
    · subst hx
      have := contig_le _ t e h.2.2
      rw [h.1]; omega
    · have := contig_mem _ t e h.2.2 x hx
      omega

/-- splitting a contiguous list at any point -/
theorem contig_split : ∀ (o : Nat) (pre rest : List WSeg) (e : Nat), contig o (pre ++ rest) e →
    ∃ m, contig o pre m ∧ contig m rest e ∧ (rest ≠ [] → ∀ y ∈ pre, y.data ≠ [])
  | o, [], rest, e, h => ⟨o, rfl, h, fun _ y hy => by simp at hy⟩
  | o, x :: t, rest, e, h => by
    obtain ⟨m, h1, h2, h3⟩ := contig_split (o + x.data.length) t rest e h.2.2
    refine ⟨m, ⟨h.1, ?_, h1⟩, h2, ?_⟩
    · intro hx
      have := h.2.1 hx
      simp at this
      exact this.1
    · intro hr y hy
      rcases List.mem_cons.mp hy with hy | hy
      · subst hy
        intro hx
        have := h.2.1 hx
        simp at this
        exact hr this.2
      · exact h3 hr y hy

theorem contig_join : ∀ (o : Nat) (pre rest : List WSeg) (m e : Nat), contig o pre m → contig m rest e →
    (rest ≠ [] → ∀ y ∈ pre, y.data ≠ []) → contig o (pre ++ rest) e
  | o, [], rest, m, e, h1, h2, _ => by simp only [contig] at h1; subst h1; exact h2
  | o, x :: t, rest, m, e, h1, h2, h3 => by
    refine ⟨h1.1, ?_, contig_join _ t rest m e h1.2.2 h2 (fun hr y hy => h3 hr y (by simp [hy]))⟩
    intro hx
    have ht := h1.2.1 hx
    subst ht
    by_cases hr : rest = []
    · simp [hr]
    · exact absurd hx (h3 hr x (by simp))

theorem entryOk_mono (W V : List Nat) (iss1 : Nat) (x : WSeg) (h : entryOk W iss1 x) (hl : x.gOff + x.data.length ≤ W.length) :
    entryOk (W ++ V) iss1 x := by
  refine ⟨?_, h.2⟩
  have h1 := h.1
  rw [List.drop_append_of_le_length (by omega), List.take_append_of_le_length (by simp; omega)]
  exact h1

/-- endpoint level: until `Shutdown(write)` no FIN entry is queued and `sndNxt` has not passed the last byte -/
structure SE (e : Ep) : Prop where
  inv : SInv e.snd
  nofin : e.sndClosed = false → (∀ x ∈ e.snd.writeList, x.data ≠ []) ∧ e.snd.gNxt ≤ e.snd.gW.length

/-- appending an entry that starts at the end of the stream -/
theorem core_append (s s' : Snd) (y : WSeg) (V : List Nat) (hy : y.gOff = s.gW.length) (hyf : y.flags = 0)
    (hyd : y.data = V) (hne : ∀ x ∈ s.writeList, x.data ≠ []) (hnx : s.gNxt ≤ s.gW.length) (I : Core s)
    (hwl : s'.writeList = s.writeList ++ [y]) (hW : s'.gW = s.gW ++ V) (h3 : s'.gIss1 = s.gIss1)
    (h4 : s'.sndUna = s.sndUna) (h5 : s'.sndNxt = s.sndNxt) (h6 : s'.gUna = s.gUna) (h7 : s'.gNxt = s.gNxt) :
    Core s' := by
  have hmem := contig_mem _ _ _ I.cont
  have hh : headOff s' = headOff s := by
    unfold headOff
    rw [hwl, hW]
    cases hw : s.writeList with
    | nil => simp [hy]
    | cons a t => simp
  constructor
  · rw [hh, hwl, hW, List.length_append]
    refine contig_join _ _ [y] _ _ I.cont ⟨hy, fun _ => rfl, ?_⟩ (fun _ => hne)
    show s.gW.length + y.data.length = s.gW.length + V.length
    rw [hyd]
  · intro x hx
    rw [hwl] at hx
    rw [hW, h3]
    rcases List.mem_append.mp hx with hx | hx
    · exact entryOk_mono _ _ _ _ (I.ents x hx) (hmem x hx).2
    · simp only [List.mem_singleton] at hx
      subst hx
      exact ⟨by rw [hy, hyd]; simp, fun hf => absurd hyf hf⟩
  · intro x hx
    rw [hwl] at hx
    rcases List.mem_append.mp hx with hx | hx
    · exact I.fl x hx
    · simp only [List.mem_singleton] at hx; subst hx; exact Or.inl hyf
  · rw [h4, h3, h6]; exact I.una
  · rw [h5, h3, h7]; exact I.nxt
  · rw [h6, h7, hW, List.length_append]
    exact ⟨I.ord.1, by have := I.ord.2; omega⟩
  · intro _
    rw [hh, h6]
    unfold headOff
    cases hw : s.writeList with
    | nil =>
      have := I.emp hw
      have := I.ord
      simp only; omega
    | cons a t =>
      have := I.hd (by rw [hw]; simp)
      simp only [headOff, hw] at this
      simpa using this
  · intro hemp
    rw [hwl] at hemp
    simp at hemp
  · intro x hx hlt
    rw [hwl] at hx
    rw [h7] at hlt ⊢
    rcases List.mem_append.mp hx with hx | hx
    · exact I.front x hx hlt
    · simp only [List.mem_singleton] at hx
      subst hx
      omega

theorem wn_append (s s' : Snd) (y : WSeg) (V : List Nat) (hy : y.gOff = s.gW.length) (h : offAt s s.writeNext ≤ s.gNxt)
    (hwl : s'.writeList = s.writeList ++ [y]) (hW : s'.gW = s.gW ++ V) (h7 : s'.gNxt = s.gNxt)
    (hwn : s'.writeNext = if s.writeNext ≥ s.writeList.length then s.writeList.length else s.writeNext) :
    offAt s' s'.writeNext ≤ s'.gNxt := by
  rw [h7, hwn]
  split
  · rename_i hge
    have hoff : offAt s s.writeNext = s.gW.length := by
      unfold offAt; rw [List.getElem?_eq_none (by omega)]
    have : offAt s' s.writeList.length = s.gW.length := by
      unfold offAt; rw [hwl]; simp [hy]
    rw [this, ← hoff]; exact h
  · rename_i hlt
    have h2 : offAt s' s.writeNext = offAt s s.writeNext := by
      unfold offAt
      rw [hwl]
      simp only [List.getElem?_append_left (show s.writeNext < s.writeList.length by omega)]
      rw [List.getElem?_eq_getElem (by omega)]
    rw [h2]; exact h

theorem queueWrite_SE (e : Ep) (v : List Nat) (hv : v ≠ []) (hc : e.sndClosed = false) (h : SE e) : SE (queueWrite e v) := by
  obtain ⟨hne, hnx⟩ := h.nofin hc
  refine ⟨⟨?_, ?_⟩, ?_⟩
  · exact core_append e.snd _ { data := v, gOff := e.snd.gW.length } v rfl rfl rfl hne hnx h.inv.core rfl rfl rfl rfl rfl rfl rfl
  · exact wn_append e.snd _ { data := v, gOff := e.snd.gW.length } v rfl h.inv.wn rfl rfl rfl rfl
  · intro _
    refine ⟨?_, ?_⟩
    · intro x hx
      have hx' : x ∈ e.snd.writeList ++ [{ data := v, gOff := e.snd.gW.length }] := hx
      rcases List.mem_append.mp hx' with hx | hx
      · exact hne x hx
      · simp only [List.mem_singleton] at hx; subst hx; exact hv
    · show e.snd.gNxt ≤ (e.snd.gW ++ v).length
      rw [List.length_append]; omega

theorem queueFin_SE (e : Ep) (hc : e.sndClosed = false) (h : SE e) : SE (queueFin e) := by
  obtain ⟨hne, hnx⟩ := h.nofin hc
  refine ⟨⟨?_, ?_⟩, ?_⟩
  · exact core_append e.snd _ { data := [], gOff := e.snd.gW.length } [] rfl rfl rfl hne hnx h.inv.core rfl
      (by show e.snd.gW = e.snd.gW ++ []; simp) rfl rfl rfl rfl rfl
  · exact wn_append e.snd _ { data := [], gOff := e.snd.gW.length } [] rfl h.inv.wn rfl
      (by show e.snd.gW = e.snd.gW ++ []; simp) rfl rfl
  · intro hx; exact absurd hx (by show (true = false) → False; intro h; cases h)

/-! ### sequence arithmetic of the frontier -/

theorem addS_addS (a x y : Nat) : addS (addS a x) y = addS a (x + y) := by unfold addS M; omega
theorem sizeS_fwd (g a b : Nat) (h : a ≤ b) (hb : b - a < 4294967296) : sizeS (addS g a) (addS g b) = b - a := by
  unfold sizeS addS M; omega
theorem sizeS_bwd (g a b : Nat) (h : b < a) (hb : a - b < 4294967296) : sizeS (addS g a) (addS g b) = 4294967296 - (a - b) := by
  unfold sizeS addS M; omega

/-- `bumpNxt` after transmitting the piece `[o, o + l)` of the stream, when `sndNxt` stands for offset `n`:
new data (`o = n`) moves the frontier to `o + l`, a retransmission (`o + l ≤ n`) leaves it -/
theorem bump_frontier (s : Snd) (g o l n : Nat) (hn : s.sndNxt = addS g n) (hgn : s.gNxt = n)
    (hl1 : 1 ≤ l) (hB : n < 2147483648) (hB2 : l < 2147483648) (hcase : o = n ∨ o + l ≤ n) :
    (s.bumpNxt (addS (addS g o) l)).sndNxt = addS g (if o = n then n + l else n) ∧
    (s.bumpNxt (addS (addS g o) l)).gNxt = (if o = n then n + l else n) := by
  unfold Snd.bumpNxt
  rw [addS_addS, hn]
  by_cases ho : o = n
  · subst ho
    have hs : sizeS (addS g o) (addS g (o + l)) = l := by rw [sizeS_fwd g o (o + l) (by omega) (by omega)]; omega
    have hlt : lt (addS g o) (addS g (o + l)) = true := by rw [lt_iff, hs]; omega
    simp [hlt, hs, hgn]
  · have hle : o + l ≤ n := by rcases hcase with h | h; exact absurd h ho; exact h
    have hlt : lt (addS g n) (addS g (o + l)) = false := by
      cases hc : lt (addS g n) (addS g (o + l))
      · rfl
      · rw [lt_iff] at hc
        by_cases he : o + l = n
        · rw [he, sizeS_self] at hc; omega
        · rw [sizeS_bwd g n (o + l) (by omega) (by omega)] at hc; omega
    simp [hlt, ho, hgn, hn]

/-- the list around index `i` -/
theorem decomp (wl : List WSeg) (i : Nat) (x : WSeg) (h : wl[i]? = some x) :
    ∃ pre post, wl = pre ++ x :: post ∧ pre.length = i := by
  have hi : i < wl.length := by
    rcases Nat.lt_or_ge i wl.length with h' | h'
    · exact h'
    · rw [List.getElem?_eq_none h'] at h; cases h
  refine ⟨wl.take i, wl.drop (i + 1), ?_, by simp; omega⟩
  have hx : wl[i] = x := by rw [List.getElem?_eq_getElem hi] at h; exact Option.some.inj h
  rw [← hx, List.getElem_cons_drop hi, List.take_append_drop]

theorem set_decomp (pre post : List WSeg) (x y : WSeg) : (pre ++ x :: post).set pre.length y = pre ++ y :: post := by simp

/-- what contiguity says around an entry: the entries before it carry data and end at or before it, the
entries behind it start at or after its end, and a data-less entry has nothing behind it -/
theorem contig_around (o : Nat) (pre post : List WSeg) (x : WSeg) (e : Nat) (h : contig o (pre ++ x :: post) e) :
    (∀ y ∈ pre, y.data ≠ [] ∧ y.gOff + y.data.length ≤ x.gOff) ∧ (∀ y ∈ post, x.gOff + x.data.length ≤ y.gOff) ∧
    (x.data = [] → post = []) ∧ contig o pre x.gOff ∧ contig (x.gOff + x.data.length) post e ∧ x.gOff + x.data.length ≤ e := by
  obtain ⟨m, h1, h2, h3⟩ := contig_split o pre (x :: post) e h
  have hm : x.gOff = m := h2.1
  subst hm
  have hp := contig_mem _ _ _ h1
  have hq := contig_mem _ _ _ h2.2.2
  refine ⟨fun y hy => ⟨h3 (by simp) y hy, (hp y hy).2⟩, fun y hy => (hq y hy).1, h2.2.1, h1, h2.2.2, contig_le _ _ _ h2.2.2⟩

theorem headOff_replace (s s' : Snd) (pre post post' : List WSeg) (x x' : WSeg) (hwl : s.writeList = pre ++ x :: post)
    (hwl' : s'.writeList = pre ++ x' :: post') (hg : x'.gOff = x.gOff) : headOff s' = headOff s := by
  unfold headOff
  rw [hwl, hwl']
  cases pre with
  | nil => simpa using hg
  | cons a t => simp

/-- replacing an entry by one with the same offset and bytes -/
theorem core_replace (s s' : Snd) (pre post : List WSeg) (x x' : WSeg) (I : Core s)
    (hwl : s.writeList = pre ++ x :: post) (hwl' : s'.writeList = pre ++ x' :: post)
    (hW : s'.gW = s.gW) (h3 : s'.gIss1 = s.gIss1) (h4 : s'.sndUna = s.sndUna) (h5 : s'.sndNxt = s.sndNxt)
    (h6 : s'.gUna = s.gUna) (h7 : s'.gNxt = s.gNxt)
    (hg : x'.gOff = x.gOff) (hd : x'.data = x.data) (hok : entryOk s.gW s.gIss1 x') (hfl : x.gOff < s.gNxt → x'.flags ≠ 0)
    (hfo : flagsOk x') : Core s' := by
  have hc := I.cont
  rw [hwl] at hc
  obtain ⟨a1, a2, a3, a4, a5, a6⟩ := contig_around _ _ _ _ _ hc
  have hh := headOff_replace s s' pre post post x x' hwl hwl' hg
  constructor
  · rw [hh, hwl', hW]
    refine contig_join _ pre (x' :: post) _ _ a4 ⟨hg, ?_, ?_⟩ (fun _ y hy => (a1 y hy).1)
    · intro h; rw [hd] at h; exact a3 h
    · rw [hd]; exact a5
  · intro y hy
    rw [hwl'] at hy
    rw [hW, h3]
    rcases List.mem_append.mp hy with hy | hy
    · exact I.ents y (by rw [hwl]; exact List.mem_append_left _ hy)
    · rcases List.mem_cons.mp hy with hy | hy
      · subst hy; exact hok
      · exact I.ents y (by rw [hwl]; exact List.mem_append_right _ (List.mem_cons_of_mem _ hy))
  · intro y hy
    rw [hwl'] at hy
    rcases List.mem_append.mp hy with hy | hy
    · exact I.fl y (by rw [hwl]; exact List.mem_append_left _ hy)
    · rcases List.mem_cons.mp hy with hy | hy
      · subst hy; exact hfo
      · exact I.fl y (by rw [hwl]; exact List.mem_append_right _ (List.mem_cons_of_mem _ hy))
  · rw [h4, h3, h6]; exact I.una
  · rw [h5, h3, h7]; exact I.nxt
  · rw [h6, h7, hW]; exact I.ord
  · intro _; rw [hh, h6]; exact I.hd (by rw [hwl]; simp)
  · intro he; rw [hwl'] at he; simp at he
  · intro y hy hlt
    rw [hwl'] at hy
    rw [h7] at hlt ⊢
    rcases List.mem_append.mp hy with hy | hy
    · exact I.front y (by rw [hwl]; exact List.mem_append_left _ hy) hlt
    · rcases List.mem_cons.mp hy with hy | hy
      · subst hy
        rw [hg] at hlt
        have := I.front x (by rw [hwl]; simp) hlt
        exact ⟨hfl hlt, by rw [hg, hd]; exact this.2⟩
      · exact I.front y (by rw [hwl]; exact List.mem_append_right _ (List.mem_cons_of_mem _ hy)) hlt

/-- splitting an entry in two at byte `a` -/
theorem core_split (s s' : Snd) (pre post : List WSeg) (x x1 x2 : WSeg) (a : Nat) (I : Core s)
    (hwl : s.writeList = pre ++ x :: post) (hwl' : s'.writeList = pre ++ x1 :: x2 :: post)
    (hW : s'.gW = s.gW) (h3 : s'.gIss1 = s.gIss1) (h4 : s'.sndUna = s.sndUna) (h5 : s'.sndNxt = s.sndNxt)
    (h6 : s'.gUna = s.gUna) (h7 : s'.gNxt = s.gNxt)
    (hg1 : x1.gOff = x.gOff) (hd1 : x1.data = x.data.take a) (hg2 : x2.gOff = x.gOff + a) (hd2 : x2.data = x.data.drop a)
    (ha0 : 0 < a) (ha : a < x.data.length) (hok1 : entryOk s.gW s.gIss1 x1) (hok2 : entryOk s.gW s.gIss1 x2)
    (hf1 : x1.flags ≠ 0) (hf2 : x2.flags ≠ 0) (hfo1 : flagsOk x1) (hfo2 : flagsOk x2) : Core s' := by
  have hc := I.cont
  rw [hwl] at hc
  obtain ⟨a1, a2, a3, a4, a5, a6⟩ := contig_around _ _ _ _ _ hc
  have hh := headOff_replace s s' pre post (x2 :: post) x x1 hwl hwl' hg1
  have l1 : x1.data.length = a := by rw [hd1, List.length_take]; omega
  have l2 : x2.data.length = x.data.length - a := by rw [hd2, List.length_drop]
  have ne1 : x1.data ≠ [] := by intro h; rw [h] at l1; simp at l1; omega
  have ne2 : x2.data ≠ [] := by intro h; rw [h] at l2; simp at l2; omega
  constructor
  · rw [hh, hwl', hW]
    refine contig_join _ pre (x1 :: x2 :: post) _ _ a4 ⟨hg1, fun h => absurd h ne1, hg2.trans (by rw [l1]), fun h => absurd h ne2, ?_⟩
      (fun _ y hy => (a1 y hy).1)
    rw [l1, l2]
    have : x.gOff + a + (x.data.length - a) = x.gOff + x.data.length := by omega
    rw [this]; exact a5
  · intro y hy
    rw [hwl'] at hy
    rw [hW, h3]
    rcases List.mem_append.mp hy with hy | hy
    · exact I.ents y (by rw [hwl]; exact List.mem_append_left _ hy)
    · rcases List.mem_cons.mp hy with hy | hy
      · subst hy; exact hok1
      · rcases List.mem_cons.mp hy with hy | hy
        · subst hy; exact hok2
        · exact I.ents y (by rw [hwl]; exact List.mem_append_right _ (List.mem_cons_of_mem _ hy))
  · intro y hy
    rw [hwl'] at hy
    rcases List.mem_append.mp hy with hy | hy
    · exact I.fl y (by rw [hwl]; exact List.mem_append_left _ hy)
    · rcases List.mem_cons.mp hy with hy | hy
      · subst hy; exact hfo1
      · rcases List.mem_cons.mp hy with hy | hy
        · subst hy; exact hfo2
        · exact I.fl y (by rw [hwl]; exact List.mem_append_right _ (List.mem_cons_of_mem _ hy))
  · rw [h4, h3, h6]; exact I.una
  · rw [h5, h3, h7]; exact I.nxt
  · rw [h6, h7, hW]; exact I.ord
  · intro _; rw [hh, h6]; exact I.hd (by rw [hwl]; simp)
  · intro he; rw [hwl'] at he; simp at he
  · intro y hy hlt
    rw [hwl'] at hy
    rw [h7] at hlt ⊢
    rcases List.mem_append.mp hy with hy | hy
    · exact I.front y (by rw [hwl]; exact List.mem_append_left _ hy) hlt
    · rcases List.mem_cons.mp hy with hy | hy
      · subst hy
        rw [hg1] at hlt
        have := I.front x (by rw [hwl]; simp) hlt
        exact ⟨hf1, by rw [hg1, l1]; omega⟩
      · rcases List.mem_cons.mp hy with hy | hy
        · subst hy
          rw [hg2] at hlt
          have := I.front x (by rw [hwl]; simp) (by omega)
          exact ⟨hf2, by rw [hg2, l2]; omega⟩
        · exact I.front y (by rw [hwl]; exact List.mem_append_right _ (List.mem_cons_of_mem _ hy)) hlt

/-- sequence-space length of a write-list entry when it is transmitted -/
def xlen (x : WSeg) : Nat := if x.data = [] then 1 else x.data.length

/-- transmitting the (assigned) entry `x`: the frontier moves to its end if it was new data, stays otherwise -/
theorem core_bump (s : Snd) (pre post : List WSeg) (x : WSeg) (I : Core s) (hB : s.gW.length + 1 < 2147483648)
    (hwl : s.writeList = pre ++ x :: post) (hf : x.flags ≠ 0) (hle : x.gOff ≤ s.gNxt)
    (hfin : x.data = [] → s.gW.length ≤ x.gOff) :
    Core (s.bumpNxt (addS x.seq (xlen x))) ∧ x.gOff + x.data.length ≤ (s.bumpNxt (addS x.seq (xlen x))).gNxt ∧
    s.gNxt ≤ (s.bumpNxt (addS x.seq (xlen x))).gNxt ∧ (s.bumpNxt (addS x.seq (xlen x))).gNxt ≤ max s.gNxt (x.gOff + xlen x) := by
  have hc := I.cont
  rw [hwl] at hc
  obtain ⟨a1, a2, a3, a4, a5, a6⟩ := contig_around _ _ _ _ _ hc
  have hx := I.ents x (by rw [hwl]; simp)
  have hseq : x.seq = addS s.gIss1 x.gOff := hx.2 hf
  have hord := I.ord
  have hl1 : 1 ≤ xlen x := by
    unfold xlen; split
    · omega
    · rename_i h; exact List.length_pos_iff.mpr h
  have hl2 : x.gOff + xlen x ≤ s.gW.length + 1 := by
    unfold xlen; split
    · omega
    · omega
  have hcase : x.gOff = s.gNxt ∨ x.gOff + xlen x ≤ s.gNxt := by
    rcases Nat.lt_or_ge x.gOff s.gNxt with h | h
    · right
      have := (I.front x (by rw [hwl]; simp) h).2
      unfold xlen; split
      · omega
      · exact this
    · left; omega
  have hb := bump_frontier s s.gIss1 x.gOff (xlen x) s.gNxt I.nxt rfl hl1 (by omega) (by omega) hcase
  rw [← hseq] at hb
  generalize hs' : s.bumpNxt (addS x.seq (xlen x)) = s' at hb
  have hsame : s'.writeList = s.writeList ∧ s'.gW = s.gW ∧ s'.gIss1 = s.gIss1 ∧ s'.sndUna = s.sndUna ∧ s'.gUna = s.gUna := by
    rw [← hs']; unfold Snd.bumpNxt; split <;> exact ⟨rfl, rfl, rfl, rfl, rfl⟩
  obtain ⟨e1, e2, e3, e4, e5⟩ := hsame
  have hh : headOff s' = headOff s := by unfold headOff; rw [e1, e2]
  have hge : s.gNxt ≤ s'.gNxt := by rw [hb.2]; split <;> omega
  refine ⟨⟨by rw [hh, e1, e2]; exact I.cont, by rw [e1, e2, e3]; exact I.ents, by rw [e1]; exact I.fl, by rw [e4, e3, e5]; exact I.una,
    by rw [hb.1, hb.2, e3], ?_, by rw [e1, hh, e5]; exact I.hd, by rw [e1, e2, e5]; exact I.emp, ?_⟩, ?_, hge, ?_⟩
  · rw [e5, e2, hb.2]
    refine ⟨by split <;> omega, ?_⟩
    split
    · rename_i h; rw [← h]; exact hl2
    · exact hord.2
  · intro y hy hlt
    rw [e1] at hy
    by_cases hold : y.gOff < s.gNxt
    · have := I.front y hy hold
      exact ⟨this.1, by omega⟩
    · -- the frontier moved over `y`: `y` is the entry just sent
      rw [hb.2] at hlt ⊢
      by_cases hxn : x.gOff = s.gNxt
      · simp only [hxn, if_true] at hlt ⊢
        rw [hwl] at hy
        rcases List.mem_append.mp hy with hy | hy
        · have := a1 y hy
          have : 0 < y.data.length := List.length_pos_iff.mpr this.1
          omega
        · rcases List.mem_cons.mp hy with hy | hy
          · subst hy
            refine ⟨hf, ?_⟩
            unfold xlen; split
            · rename_i h; simp [h]; omega
            · omega
          · have := a2 y hy
            unfold xlen at hlt
            split at hlt
            · rename_i h; rw [a3 h] at hy; simp at hy
            · omega
      · simp only [hxn, if_false] at hlt; omega
  · rw [hb.2]
    split
    · rename_i h
      unfold xlen; split
      · rename_i hd; simp [hd]; omega
      · omega
    · rename_i h
      have hlt : x.gOff < s.gNxt := by omega
      exact (I.front x (by rw [hwl]; simp) hlt).2
  · rw [hb.2]; split
    · rename_i h; rw [h]; exact Nat.le_max_right _ _
    · exact Nat.le_max_left _ _

/-! ### the send loop -/

/-- an emitted data segment (with TCP flags set: a segment without the ACK flag is ignored by every TCP receiver,
this stack's included) carries the bytes of the accepted stream `W` at the offset its sequence number names -/
def Good (W : List Nat) (iss1 : Nat) (o : OutSeg) : Prop :=
  o.data ≠ [] → o.flags ≠ 0 → ∃ off, o.seq = addS iss1 off ∧ o.data = (W.drop off).take o.data.length ∧ off + o.data.length ≤ W.length

structure LI (e : Ep) (i : Nat) : Prop where
  core : Core e.snd
  at_ : offAt e.snd i ≤ e.snd.gNxt
  nofin : e.sndClosed = false → (∀ x ∈ e.snd.writeList, x.data ≠ []) ∧ e.snd.gNxt ≤ e.snd.gW.length
  bnd : e.snd.gW.length + 1 < 2147483648
  mp : 0 < e.snd.maxPayload

theorem assign_ok (x : WSeg) (nxt iss1 : Nat) (W : List Nat) (hok : entryOk W iss1 x) (h : x.flags = 0 → nxt = addS iss1 x.gOff) :
    (x.assign nxt).gOff = x.gOff ∧ (x.assign nxt).data = x.data ∧ (x.assign nxt).flags ≠ 0 ∧ entryOk W iss1 (x.assign nxt) := by
  unfold WSeg.assign
  split
  · rename_i hz
    have hz' : x.flags = 0 := by simpa using hz
    refine ⟨rfl, rfl, (by decide : fAck ||| fPsh ≠ 0), hok.1, fun _ => h hz'⟩
  · rename_i hz
    have hz' : x.flags ≠ 0 := by simpa using hz
    exact ⟨rfl, rfl, hz', hok⟩

theorem offAt_next (s : Snd) (pre post : List WSeg) (y : WSeg) (I : Core s) (hwl : s.writeList = pre ++ y :: post) :
    offAt s (pre.length + 1) = y.gOff + y.data.length := by
  have hc := I.cont
  rw [hwl] at hc
  obtain ⟨_, _, _, _, a5, _⟩ := contig_around _ _ _ _ _ hc
  unfold offAt
  rw [hwl]
  have : (pre ++ y :: post)[pre.length + 1]? = post[0]? := by
    rw [List.getElem?_append_right (by omega)]
    simp
  rw [this]
  cases post with
  | nil => simp only [contig] at a5; simp [a5]
  | cons z t => simp [a5.1]

theorem offAt_at (s : Snd) (pre post : List WSeg) (y : WSeg) (hwl : s.writeList = pre ++ y :: post) :
    offAt s pre.length = y.gOff := by
  unfold offAt; rw [hwl]; simp

theorem emitAt_snd (e0 : Ep) (seg : WSeg) (x : Nat) :
    (emitAt e0 seg x).1.snd = ({ e0.snd with maxSentAck := e0.rcv.rcvNxt } : Snd).bumpNxt x ∧
    (emitAt e0 seg x).1.sndClosed = e0.sndClosed := by
  have h := sendSegment_frame e0 seg.data seg.flags seg.seq
  simp only [emitAt]
  exact ⟨by rw [h.1], h.2.2.2.2.2.2.2.2.1⟩

theorem bump_maxSent (s : Snd) (m x : Nat) : ck (({ s with maxSentAck := m } : Snd).bumpNxt x) = ck (s.bumpNxt x) := by
  unfold Snd.bumpNxt; split <;> rfl

/-- transmit entry `y` of a state whose list already holds it: the loop invariant moves to the next index -/
theorem emit_LI (e0 : Ep) (pre post : List WSeg) (y : WSeg) (I : Core e0.snd) (hB : e0.snd.gW.length + 1 < 2147483648)
    (hwl : e0.snd.writeList = pre ++ y :: post) (hf : y.flags ≠ 0) (hle : y.gOff ≤ e0.snd.gNxt)
    (hnf : e0.sndClosed = false → (∀ x ∈ e0.snd.writeList, x.data ≠ []) ∧ e0.snd.gNxt ≤ e0.snd.gW.length)
    (hmp : 0 < e0.snd.maxPayload) :
    LI (emitAt e0 y (addS y.seq (xlen y))).1 (pre.length + 1) ∧ Good e0.snd.gW e0.snd.gIss1 (emitAt e0 y (addS y.seq (xlen y))).2 ∧
    (emitAt e0 y (addS y.seq (xlen y))).1.snd.gW = e0.snd.gW ∧ (emitAt e0 y (addS y.seq (xlen y))).1.snd.gIss1 = e0.snd.gIss1 := by
  have hs := emitAt_snd e0 y (addS y.seq (xlen y))
  have hfr := emitAt_frame e0 y (addS y.seq (xlen y))
  obtain ⟨b1, b2, b3, b4⟩ := core_bump e0.snd pre post y I hB hwl hf hle (fun _ => by
    have hc := I.cont; rw [hwl] at hc
    have := (contig_around _ _ _ _ _ hc).2.2.1
    rename_i hd
    have hp := this hd
    subst hp
    have := (contig_around _ _ _ _ _ hc).2.2.2.2.1
    simp only [contig, hd, List.length_nil, Nat.add_zero] at this
    omega)
  have hck : ck (emitAt e0 y (addS y.seq (xlen y))).1.snd = ck (e0.snd.bumpNxt (addS y.seq (xlen y))) := by
    rw [hs.1]; exact bump_maxSent _ _ _
  have hcore : Core (emitAt e0 y (addS y.seq (xlen y))).1.snd := core_congr hck b1
  have hfields := hck
  simp only [ck, Prod.mk.injEq] at hfields
  obtain ⟨f1, f2, f3, _, _, _, f7⟩ := hfields
  have hbw : (e0.snd.bumpNxt (addS y.seq (xlen y))).writeList = e0.snd.writeList ∧ (e0.snd.bumpNxt (addS y.seq (xlen y))).gW = e0.snd.gW ∧
      (e0.snd.bumpNxt (addS y.seq (xlen y))).gIss1 = e0.snd.gIss1 := by
    unfold Snd.bumpNxt; split <;> exact ⟨rfl, rfl, rfl⟩
  have hwl' : (emitAt e0 y (addS y.seq (xlen y))).1.snd.writeList = pre ++ y :: post := by rw [f1, hbw.1, hwl]
  have hx := I.ents y (by rw [hwl]; simp)
  have hc := I.cont
  rw [hwl] at hc
  have a6 := (contig_around _ _ _ _ _ hc).2.2.2.2.2
  have hmp' : 0 < (emitAt e0 y (addS y.seq (xlen y))).1.snd.maxPayload := by rw [hfr.2.2.2.2.2.1]; exact hmp
  refine ⟨⟨hcore, ?_, ?_, by rw [f2, hbw.2.1]; exact hB, hmp'⟩, ?_, by rw [f2, hbw.2.1], by rw [f3, hbw.2.2]⟩
  · rw [offAt_next _ pre post y hcore hwl', f7]; exact b2
  · intro hcl
    rw [hs.2] at hcl
    obtain ⟨n1, n2⟩ := hnf hcl
    rw [f1, hbw.1, f7, f2, hbw.2.1]
    refine ⟨n1, ?_⟩
    have hyd := n1 y (by rw [hwl]; simp)
    have : xlen y = y.data.length := by unfold xlen; simp [hyd]
    have := Nat.le_trans b4 (Nat.max_le.mpr ⟨n2, by rw [this]; exact a6⟩)
    exact this
  · intro hne _
    rw [hfr.1] at hne ⊢
    rw [hfr.2.1]
    exact ⟨y.gOff, hx.2 hf, hx.1, a6⟩

theorem entryOk_take (W : List Nat) (g : Nat) (x : WSeg) (a : Nat) (h : entryOk W g x) (ha : a ≤ x.data.length) (hf : x.flags ≠ 0) :
    entryOk W g { x with data := x.data.take a } := by
  refine ⟨?_, fun _ => h.2 hf⟩
  show x.data.take a = (W.drop x.gOff).take (x.data.take a).length
  rw [List.length_take, Nat.min_eq_left ha]
  conv => lhs; rw [h.1]
  rw [List.take_take, Nat.min_eq_left ha]

theorem entryOk_drop (W : List Nat) (g : Nat) (x : WSeg) (a : Nat) (h : entryOk W g x) (hf : x.flags ≠ 0) :
    entryOk W g { seq := addS x.seq a, flags := x.flags, data := x.data.drop a, gOff := x.gOff + a } := by
  refine ⟨?_, fun _ => ?_⟩
  · show x.data.drop a = (W.drop (x.gOff + a)).take (x.data.drop a).length
    rw [List.length_drop]
    conv => lhs; rw [h.1]
    rw [List.drop_take, List.drop_drop]
  · show addS x.seq a = addS g (x.gOff + a)
    rw [h.2 hf, addS_addS]

theorem hat_of (e : Ep) (pre post : List WSeg) (seg0 : WSeg) (h : LI e pre.length) (hwl : e.snd.writeList = pre ++ seg0 :: post) :
    seg0.gOff ≤ e.snd.gNxt := by rw [← offAt_at e.snd pre post seg0 hwl]; exact h.at_

theorem step_fin (e : Ep) (pre post : List WSeg) (seg0 seg : WSeg) (h : LI e pre.length)
    (hwl : e.snd.writeList = pre ++ seg0 :: post) (g1 : seg.gOff = seg0.gOff) (g2 : seg.data = seg0.data)
    (g4 : entryOk e.snd.gW e.snd.gIss1 seg) (g3 : seg.flags ≠ 0) (hd0 : seg0.data = []) :
    LI (emitAt { e with snd := { e.snd with writeList := e.snd.writeList.set pre.length { seg with flags := fAck ||| fFin } } }
          { seg with flags := fAck ||| fFin } (addS seg.seq 1)).1 (pre.length + 1) ∧
    Good e.snd.gW e.snd.gIss1 (emitAt { e with snd := { e.snd with writeList := e.snd.writeList.set pre.length { seg with flags := fAck ||| fFin } } }
          { seg with flags := fAck ||| fFin } (addS seg.seq 1)).2 ∧
    (emitAt { e with snd := { e.snd with writeList := e.snd.writeList.set pre.length { seg with flags := fAck ||| fFin } } }
          { seg with flags := fAck ||| fFin } (addS seg.seq 1)).1.snd.gW = e.snd.gW ∧
    (emitAt { e with snd := { e.snd with writeList := e.snd.writeList.set pre.length { seg with flags := fAck ||| fFin } } }
          { seg with flags := fAck ||| fFin } (addS seg.seq 1)).1.snd.gIss1 = e.snd.gIss1 := by
  have I := h.core
  have hat := hat_of e pre post seg0 h hwl
  have hset : e.snd.writeList.set pre.length { seg with flags := fAck ||| fFin } = pre ++ { seg with flags := fAck ||| fFin } :: post := by
    rw [hwl]; exact set_decomp _ _ _ _
  have hxl : xlen { seg with flags := fAck ||| fFin } = 1 := by unfold xlen; simp [g2, hd0]
  have hcore0 : Core ({ e.snd with writeList := e.snd.writeList.set pre.length { seg with flags := fAck ||| fFin } } : Snd) :=
    core_replace e.snd _ pre post seg0 _ I hwl hset rfl rfl rfl rfl rfl rfl g1 g2
      ⟨g4.1, fun _ => g4.2 g3⟩ (fun _ => (by decide : fAck ||| fFin ≠ 0)) (Or.inr (Or.inr ⟨by show seg.data = []; rw [g2]; exact hd0, rfl⟩))
  have := emit_LI { e with snd := { e.snd with writeList := e.snd.writeList.set pre.length { seg with flags := fAck ||| fFin } } }
    pre post { seg with flags := fAck ||| fFin } hcore0 h.bnd hset (by decide : fAck ||| fFin ≠ 0)
    (by show seg.gOff ≤ _; rw [g1]; exact hat)
    (fun hcl => absurd hd0 ((h.nofin hcl).1 seg0 (by rw [hwl]; simp))) h.mp
  rw [hxl] at this
  exact this

theorem step_wstop (e : Ep) (pre post : List WSeg) (seg0 seg : WSeg) (h : LI e pre.length)
    (hwl : e.snd.writeList = pre ++ seg0 :: post) (g1 : seg.gOff = seg0.gOff) (g2 : seg.data = seg0.data)
    (g4 : entryOk e.snd.gW e.snd.gIss1 seg) (g3 : seg.flags ≠ 0) (hd0 : seg0.data ≠ []) (hfo : flagsOk seg) :
    SE { e with snd := { e.snd with writeList := e.snd.writeList.set pre.length seg, writeNext := pre.length } } := by
  have I := h.core
  have hat := hat_of e pre post seg0 h hwl
  have hset : e.snd.writeList.set pre.length seg = pre ++ seg :: post := by rw [hwl]; exact set_decomp _ _ _ _
  have hcore0 : Core ({ e.snd with writeList := e.snd.writeList.set pre.length seg, writeNext := pre.length } : Snd) :=
    core_replace e.snd _ pre post seg0 _ I hwl hset rfl rfl rfl rfl rfl rfl g1 g2 g4 (fun _ => g3) hfo
  refine ⟨⟨hcore0, ?_⟩, ?_⟩
  · show offAt _ pre.length ≤ e.snd.gNxt
    rw [offAt_at _ pre post _ hset, g1]; exact hat
  · intro hcl
    obtain ⟨n1, n2⟩ := h.nofin hcl
    refine ⟨?_, n2⟩
    intro x hx
    have hx' : x ∈ pre ++ seg :: post := by rw [← hset]; exact hx
    rcases List.mem_append.mp hx' with hx' | hx'
    · exact n1 x (by rw [hwl]; exact List.mem_append_left _ hx')
    · rcases List.mem_cons.mp hx' with hx' | hx'
      · subst hx'; rw [g2]; exact hd0
      · exact n1 x (by rw [hwl]; exact List.mem_append_right _ (List.mem_cons_of_mem _ hx'))

theorem step_data (e : Ep) (pre post : List WSeg) (seg0 seg : WSeg) (av : Nat) (h : LI e pre.length)
    (hwl : e.snd.writeList = pre ++ seg0 :: post) (g1 : seg.gOff = seg0.gOff) (g2 : seg.data = seg0.data)
    (g4 : entryOk e.snd.gW e.snd.gIss1 seg) (g3 : seg.flags ≠ 0) (hd0 : seg0.data ≠ []) (hav0 : 0 < av) (hfo : flagsOk seg) :
    LI (emitAt { e with snd := { e.snd with writeList := (splitAt e.snd.writeList pre.length seg av).1, outstanding := e.snd.outstanding + 1 } }
          (splitAt e.snd.writeList pre.length seg av).2
          (addS (splitAt e.snd.writeList pre.length seg av).2.seq (splitAt e.snd.writeList pre.length seg av).2.data.length)).1 (pre.length + 1) ∧
    Good e.snd.gW e.snd.gIss1 (emitAt { e with snd := { e.snd with writeList := (splitAt e.snd.writeList pre.length seg av).1, outstanding := e.snd.outstanding + 1 } }
          (splitAt e.snd.writeList pre.length seg av).2
          (addS (splitAt e.snd.writeList pre.length seg av).2.seq (splitAt e.snd.writeList pre.length seg av).2.data.length)).2 ∧
    (emitAt { e with snd := { e.snd with writeList := (splitAt e.snd.writeList pre.length seg av).1, outstanding := e.snd.outstanding + 1 } }
          (splitAt e.snd.writeList pre.length seg av).2
          (addS (splitAt e.snd.writeList pre.length seg av).2.seq (splitAt e.snd.writeList pre.length seg av).2.data.length)).1.snd.gW = e.snd.gW ∧
    (emitAt { e with snd := { e.snd with writeList := (splitAt e.snd.writeList pre.length seg av).1, outstanding := e.snd.outstanding + 1 } }
          (splitAt e.snd.writeList pre.length seg av).2
          (addS (splitAt e.snd.writeList pre.length seg av).2.seq (splitAt e.snd.writeList pre.length seg av).2.data.length)).1.snd.gIss1 = e.snd.gIss1 := by
  have I := h.core
  have hat := hat_of e pre post seg0 h hwl
  have hsp := splitAt_decomp pre post seg0 seg av
  rw [← hwl] at hsp
  by_cases hlong : seg.data.length > av
  · rw [if_pos hlong, if_pos hlong] at hsp
    have hav1 : av < seg0.data.length := by rw [← g2]; exact hlong
    have ok1 := entryOk_take e.snd.gW e.snd.gIss1 _ av g4 (by omega) g3
    have ok2 := entryOk_drop e.snd.gW e.snd.gIss1 _ av g4 g3
    have hf24 : seg.flags = fAck ||| fPsh := by
      rcases hfo with h0 | h1 | h2
      · exact absurd h0 g3
      · exact h1.2
      · exact absurd (g2 ▸ h2.1) hd0
    have hne1 : ({ seg with data := seg.data.take av } : WSeg).data ≠ [] := by
      intro hd
      have : (List.take av seg.data).length = 0 := by rw [show List.take av _ = [] from hd]; rfl
      rw [List.length_take] at this; omega
    have hne2 : (List.drop av seg.data) ≠ [] := by
      intro hd
      have : (List.drop av seg.data).length = 0 := by rw [hd]; rfl
      rw [List.length_drop] at this; omega
    have hcore0 : Core ({ e.snd with writeList := (splitAt e.snd.writeList pre.length seg av).1, outstanding := e.snd.outstanding + 1 } : Snd) :=
      core_split e.snd _ pre post seg0 _ _ av I hwl hsp.1 rfl rfl rfl rfl rfl rfl g1 (by rw [g2]) (by show _ + av = _; rw [g1])
        (by show List.drop av _ = _; rw [g2]) hav0 hav1 ok1 ok2 g3 g3
        (Or.inr (Or.inl ⟨hne1, hf24⟩)) (Or.inr (Or.inl ⟨hne2, hf24⟩))
    have hne1x : ({ seg with data := seg.data.take av } : WSeg).data ≠ [] := by
      intro hd
      have : (List.take av seg.data).length = 0 := by rw [show List.take av _ = [] from hd]; rfl
      rw [List.length_take] at this; omega
    have hxl : xlen ({ seg with data := seg.data.take av } : WSeg) = ({ seg with data := seg.data.take av } : WSeg).data.length := by
      unfold xlen; simp only [hne1, if_false]
    have := emit_LI { e with snd := { e.snd with writeList := (splitAt e.snd.writeList pre.length seg av).1, outstanding := e.snd.outstanding + 1 } }
      pre (_ :: post) _ hcore0 h.bnd hsp.1 g3 (by show seg.gOff ≤ _; rw [g1]; exact hat)
      (fun hcl => by
        obtain ⟨n1, n2⟩ := h.nofin hcl
        refine ⟨?_, n2⟩
        intro x hx
        have hx' : x ∈ (splitAt e.snd.writeList pre.length seg av).1 := hx
        rw [hsp.1] at hx'
        rcases List.mem_append.mp hx' with hx' | hx'
        · exact n1 x (by rw [hwl]; exact List.mem_append_left _ hx')
        · rcases List.mem_cons.mp hx' with hx' | hx'
          · subst hx'; exact hne1
          · rcases List.mem_cons.mp hx' with hx' | hx'
            · subst hx'
              show List.drop av _ ≠ []
              intro hd
              have : (List.drop av seg.data).length = 0 := by rw [hd]; rfl
              rw [List.length_drop] at this; omega
            · exact n1 x (by rw [hwl]; exact List.mem_append_right _ (List.mem_cons_of_mem _ hx'))) h.mp
    rw [hxl] at this
    rw [hsp.2]
    exact this
  · rw [if_neg hlong, if_neg hlong] at hsp
    have hcore0 : Core ({ e.snd with writeList := (splitAt e.snd.writeList pre.length seg av).1, outstanding := e.snd.outstanding + 1 } : Snd) :=
      core_replace e.snd _ pre post seg0 _ I hwl hsp.1 rfl rfl rfl rfl rfl rfl g1 g2 g4 (fun _ => g3) hfo
    have hne1 : seg.data ≠ [] := by rw [g2]; exact hd0
    have hxl : xlen seg = seg.data.length := by unfold xlen; simp only [hne1, if_false]
    have := emit_LI { e with snd := { e.snd with writeList := (splitAt e.snd.writeList pre.length seg av).1, outstanding := e.snd.outstanding + 1 } }
      pre post _ hcore0 h.bnd hsp.1 g3 (by rw [g1]; exact hat)
      (fun hcl => by
        obtain ⟨n1, n2⟩ := h.nofin hcl
        refine ⟨?_, n2⟩
        intro x hx
        have hx' : x ∈ (splitAt e.snd.writeList pre.length seg av).1 := hx
        rw [hsp.1] at hx'
        rcases List.mem_append.mp hx' with hx' | hx'
        · exact n1 x (by rw [hwl]; exact List.mem_append_left _ hx')
        · rcases List.mem_cons.mp hx' with hx' | hx'
          · subst hx'; exact hne1
          · exact n1 x (by rw [hwl]; exact List.mem_append_right _ (List.mem_cons_of_mem _ hx'))) h.mp
    rw [hxl] at this
    rw [hsp.2]
    exact this

/-- **one iteration of the send loop** keeps the invariant, and what it transmits carries the right bytes under
the right sequence number -/
theorem sendStep_LI (e : Ep) (i : Nat) (h : LI e i) :
    (∀ e', sendStep e i = .stop e' → SE e' ∧ e'.snd.gW = e.snd.gW ∧ e'.snd.gIss1 = e.snd.gIss1 ∧ e'.snd.maxPayload = e.snd.maxPayload) ∧
    (∀ e' o, sendStep e i = .sent e' o → LI e' (i + 1) ∧ Good e.snd.gW e.snd.gIss1 o ∧ e'.snd.gW = e.snd.gW ∧ e'.snd.gIss1 = e.snd.gIss1) := by
  have I := h.core
  have hstop0 : SE (e.setWriteNext i) ∧ (e.setWriteNext i).snd.gW = e.snd.gW ∧ (e.setWriteNext i).snd.gIss1 = e.snd.gIss1 ∧
      (e.setWriteNext i).snd.maxPayload = e.snd.maxPayload :=
    ⟨⟨⟨@core_congr e.snd (e.setWriteNext i).snd rfl I, by
        show offAt (e.setWriteNext i).snd i ≤ e.snd.gNxt
        rw [offAt_congr (s := e.snd) (s' := (e.setWriteNext i).snd) rfl rfl]; exact h.at_⟩, h.nofin⟩, rfl, rfl, rfl⟩
  cases hget : e.snd.writeList[i]? with
  | none =>
    unfold sendStep
    simp only [hget]
    exact ⟨fun e' he => (by cases he; exact hstop0), fun e' o he => (by cases he)⟩
  | some seg0 =>
    obtain ⟨pre, post, hwl, hi⟩ := decomp _ _ _ hget
    subst hi
    have hx0 := I.ents seg0 (by rw [hwl]; simp)
    have hat := hat_of e pre post seg0 h hwl
    have hasg : seg0.flags = 0 → e.snd.sndNxt = addS e.snd.gIss1 seg0.gOff := by
      intro hz
      have : ¬ seg0.gOff < e.snd.gNxt := fun hlt => (I.front seg0 (by rw [hwl]; simp) hlt).1 hz
      have : seg0.gOff = e.snd.gNxt := by omega
      rw [this]; exact I.nxt
    obtain ⟨g1, g2, g3, g4⟩ := assign_ok seg0 e.snd.sndNxt e.snd.gIss1 e.snd.gW hx0 hasg
    unfold sendStep
    simp only [hget]
    split
    · exact ⟨fun e' he => (by cases he; exact hstop0), fun e' o he => (by cases he)⟩
    · split
      · rename_i hz
        have hd0 : seg0.data = [] := by
          have : (seg0.assign e.snd.sndNxt).data.length = 0 := by simpa using hz
          rw [g2] at this; exact List.eq_nil_of_length_eq_zero this
        refine ⟨fun e' he => (by cases he), fun e' o he => ?_⟩
        cases he
        exact step_fin e pre post seg0 _ h hwl g1 g2 g4 g3 hd0
      · rename_i hz
        have hd0 : seg0.data ≠ [] := by
          intro hd
          apply hz
          simp [g2, hd]
        have hfo : flagsOk (seg0.assign e.snd.sndNxt) := by
          have h0 := I.fl seg0 (by rw [hwl]; simp)
          unfold WSeg.assign
          split
          · exact Or.inr (Or.inl ⟨hd0, rfl⟩)
          · exact h0
        split
        · refine ⟨fun e' he => ?_, fun e' o he => (by cases he)⟩
          cases he
          exact ⟨step_wstop e pre post seg0 _ h hwl g1 g2 g4 g3 hd0 hfo, rfl, rfl, rfl⟩
        · rename_i hw
          refine ⟨fun e' he => (by cases he), fun e' o he => ?_⟩
          cases he
          have hlt : lt (seg0.assign e.snd.sndNxt).seq (sndEnd e.snd) = true := by simpa using hw
          rw [lt_iff] at hlt
          exact step_data e pre post seg0 _ _ h hwl g1 g2 g4 g3 hd0 (Nat.lt_min.mpr ⟨hlt.1, h.mp⟩) hfo

/-- the endpoint-level sender invariant with its standing assumptions: the stream is shorter than 2^31 bytes
(as for the receiving direction) and the negotiated segment size is not zero -/
structure SEB (e : Ep) : Prop where
  se : SE e
  bnd : e.snd.gW.length + 1 < 2147483648
  mp : 0 < e.snd.maxPayload

theorem LI_of_SEB (e : Ep) (h : SEB e) : LI e e.snd.writeNext := ⟨h.se.inv.core, h.se.inv.wn, h.se.nofin, h.bnd, h.mp⟩

theorem sendDataLoop_LI (fuel : Nat) (e : Ep) (i : Nat) (out : List OutSeg) (h : LI e i) :
    SEB (sendDataLoop fuel e i out).1 ∧ (sendDataLoop fuel e i out).1.snd.gW = e.snd.gW ∧
    (sendDataLoop fuel e i out).1.snd.gIss1 = e.snd.gIss1 ∧
    (∀ o ∈ (sendDataLoop fuel e i out).2, o ∈ out ∨ Good e.snd.gW e.snd.gIss1 o) := by
  induction fuel generalizing e i out with
  | zero =>
    refine ⟨⟨⟨⟨@core_congr e.snd (e.setWriteNext i).snd rfl h.core, ?_⟩, h.nofin⟩, h.bnd, h.mp⟩, rfl, rfl, fun o ho => Or.inl ho⟩
    show offAt (e.setWriteNext i).snd i ≤ e.snd.gNxt
    rw [offAt_congr (s := e.snd) (s' := (e.setWriteNext i).snd) rfl rfl]; exact h.at_
  | succ n ih =>
    unfold sendDataLoop
    have hs := sendStep_LI e i h
    split
    · rename_i e' heq
      obtain ⟨a, b, c, d⟩ := hs.1 _ heq
      exact ⟨⟨a, by rw [b]; exact h.bnd, by rw [d]; exact h.mp⟩, b, c, fun o ho => Or.inl ho⟩
    · rename_i e' o heq
      obtain ⟨a, b, c, d⟩ := hs.2 _ _ heq
      obtain ⟨i1, i2, i3, i4⟩ := ih e' (i + 1) (out ++ [o]) a
      refine ⟨i1, i2.trans c, i3.trans d, ?_⟩
      intro x hx
      rcases i4 x hx with hx | hx
      · rcases List.mem_append.mp hx with hx | hx
        · exact Or.inl hx
        · simp only [List.mem_singleton] at hx; subst hx; exact Or.inr b
      · right; rw [c, d] at hx; exact hx

/-- **`sendData`**: every data segment it transmits carries the bytes of the accepted stream at the offset its
sequence number names; the invariant is kept -/
theorem sendData_SEB (e : Ep) (h : SEB e) :
    SEB (sendData e).1 ∧ (sendData e).1.snd.gW = e.snd.gW ∧ (sendData e).1.snd.gIss1 = e.snd.gIss1 ∧
    (∀ o ∈ (sendData e).2, Good e.snd.gW e.snd.gIss1 o) := by
  obtain ⟨a, b, c, d⟩ := sendDataLoop_LI (sendFuel e.snd + 1) e e.snd.writeNext [] (LI_of_SEB e h)
  unfold sendData
  simp only
  refine ⟨?_, ?_, ?_, fun o ho => (d o ho).resolve_left (by simp)⟩
  · split
    · refine ⟨⟨⟨core_congr (s := (sendDataLoop (sendFuel e.snd + 1) e e.snd.writeNext []).1.snd) rfl a.se.inv.core, a.se.inv.wn⟩, a.se.nofin⟩, a.bnd, a.mp⟩
    · exact a
  · split <;> exact b
  · split <;> exact c

/-! ### acknowledgements -/

/-- the facts of `Core` that speak about the list only -/
structure LF (W : List Nat) (g n : Nat) (wl : List WSeg) : Prop where
  cont : contig (match wl with | [] => W.length | x :: _ => x.gOff) wl W.length
  ents : ∀ x ∈ wl, entryOk W g x
  fl : ∀ x ∈ wl, flagsOk x
  front : ∀ x ∈ wl, x.gOff < n → x.flags ≠ 0 ∧ x.gOff + x.data.length ≤ n

theorem LF_of_core (s : Snd) (I : Core s) : LF s.gW s.gIss1 s.gNxt s.writeList :=
  ⟨I.cont, I.ents, I.fl, I.front⟩

/-- sequence-space length of an assigned entry -/
theorem logicalLen_assigned (x : WSeg) (hf : flagsOk x) (ha : x.flags ≠ 0) : x.logicalLen = xlen x := by
  rcases hf with h | h | h
  · exact absurd h ha
  · unfold WSeg.logicalLen xlen
    rw [h.2]
    simp only [h.1, if_false]
    have a : has (fAck ||| fPsh) fSyn = false := by decide
    have b : has (fAck ||| fPsh) fFin = false := by decide
    simp [a, b]
  · unfold WSeg.logicalLen xlen
    rw [h.2, h.1]
    have a : has (fAck ||| fFin) fSyn = false := by decide
    have b : has (fAck ||| fFin) fFin = true := by decide
    simp [a, b]

theorem LF_tail (W : List Nat) (g n : Nat) (x : WSeg) (t : List WSeg) (L : LF W g n (x :: t)) : LF W g n t := by
  refine ⟨?_, fun y hy => L.ents y (by simp [hy]), fun y hy => L.fl y (by simp [hy]), fun y hy => L.front y (by simp [hy])⟩
  have hc := L.cont
  simp only [contig] at hc
  cases t with
  | nil => simp only [contig]
  | cons z t' =>
    have h3 := hc.2.2
    simp only [contig] at h3
    exact ⟨rfl, h3.2.1, by show contig (z.gOff + z.data.length) t' W.length; rw [h3.1]; exact h3.2.2⟩

/-- trimming `a` acknowledged bytes off the front of an assigned data entry -/
theorem LF_trim (W : List Nat) (g n : Nat) (x : WSeg) (t : List WSeg) (a : Nat) (L : LF W g n (x :: t))
    (ha0 : 0 < a) (ha : a < x.data.length) (hn : x.gOff + a ≤ n) :
    LF W g n ({ x with data := x.data.drop a, seq := addS x.seq a, gOff := x.gOff + a } :: t) := by
  have hlt : x.gOff < n := by omega
  have hfr := L.front x (by simp) hlt
  have hok := L.ents x (by simp)
  have hfo := L.fl x (by simp)
  have hne : x.data ≠ [] := by intro h; rw [h] at ha; simp at ha
  have hne' : x.data.drop a ≠ [] := by
    intro hd
    have : (List.drop a x.data).length = 0 := by rw [hd]; rfl
    rw [List.length_drop] at this; omega
  have hc := L.cont
  simp only [contig] at hc
  refine ⟨⟨rfl, fun h => absurd h hne', ?_⟩, ?_, ?_, ?_⟩
  · show contig (x.gOff + a + (x.data.drop a).length) t W.length
    rw [List.length_drop]
    have : x.gOff + a + (x.data.length - a) = x.gOff + x.data.length := by omega
    rw [this]; exact hc.2.2
  · intro y hy
    rcases List.mem_cons.mp hy with hy | hy
    · subst hy
      have := entryOk_drop W g x a hok hfr.1
      exact ⟨this.1, fun _ => this.2 hfr.1⟩
    · exact L.ents y (by simp [hy])
  · intro y hy
    rcases List.mem_cons.mp hy with hy | hy
    · subst hy
      rcases hfo with h | h | h
      · exact absurd h hfr.1
      · exact Or.inr (Or.inl ⟨hne', h.2⟩)
      · exact absurd h.1 hne
    · exact L.fl y (by simp [hy])
  · intro y hy hl
    rcases List.mem_cons.mp hy with hy | hy
    · subst hy
      refine ⟨hfr.1, ?_⟩
      show x.gOff + a + (x.data.drop a).length ≤ n
      rw [List.length_drop]
      have := hfr.2; omega
    · exact L.front y (by simp [hy]) hl

/-- **the cumulative-ACK loop**: acknowledging `ackLeft` units of sequence space that have been transmitted
(`u + ackLeft ≤` frontier) removes / trims exactly the entries that cover them; what is left starts at `u + ackLeft` -/
theorem ackLoop_spec (fuel : Nat) : ∀ (s : Snd) (ackLeft u : Nat),
    LF s.gW s.gIss1 s.gNxt s.writeList → (∀ x t, s.writeList = x :: t → x.gOff = u) → (s.writeList = [] → s.gW.length ≤ u) →
    u + ackLeft ≤ s.gNxt → s.writeList.length < fuel → offAt s s.writeNext ≤ s.gNxt →
    LF s.gW s.gIss1 s.gNxt (ackLoop fuel s ackLeft).writeList ∧
    (ackLoop fuel s ackLeft).gW = s.gW ∧ (ackLoop fuel s ackLeft).gIss1 = s.gIss1 ∧ (ackLoop fuel s ackLeft).gNxt = s.gNxt ∧
    (ackLoop fuel s ackLeft).sndUna = s.sndUna ∧ (ackLoop fuel s ackLeft).sndNxt = s.sndNxt ∧ (ackLoop fuel s ackLeft).gUna = s.gUna ∧
    (∀ x t, (ackLoop fuel s ackLeft).writeList = x :: t → x.gOff = u + ackLeft) ∧
    ((ackLoop fuel s ackLeft).writeList = [] → s.gW.length ≤ u + ackLeft) ∧
    offAt (ackLoop fuel s ackLeft) (ackLoop fuel s ackLeft).writeNext ≤ s.gNxt ∧
    (∀ x ∈ (ackLoop fuel s ackLeft).writeList, x.data = [] → x ∈ s.writeList) := by
  induction fuel with
  | zero => intro s ackLeft u _ _ _ _ hf; omega
  | succ n ih =>
    intro s ackLeft u L hu hemp hacc hfuel hwn
    unfold ackLoop
    split
    · rename_i hz
      have hz' : ackLeft = 0 := by simpa using hz
      subst hz'
      exact ⟨L, rfl, rfl, rfl, rfl, rfl, rfl, fun x t h => (by rw [hu x t h]; rfl), fun h => (by have := hemp h; omega), hwn, fun x hx _ => hx⟩
    · rename_i hz
      have hpos : 0 < ackLeft := by
        have : ackLeft ≠ 0 := by simpa using hz
        omega
      split
      · rename_i hnil
        exact ⟨L, rfl, rfl, rfl, rfl, rfl, rfl, fun x t h => (by rw [hnil] at h; cases h),
          fun _ => (by have := hemp hnil; omega), hwn, fun x hx _ => hx⟩
      · rename_i seg rest hwl
        have hgu : seg.gOff = u := hu seg rest hwl
        rw [hwl] at L
        have hlt : seg.gOff < s.gNxt := by omega
        have hfr := L.front seg (by simp) hlt
        have hll := logicalLen_assigned seg (L.fl seg (by simp)) hfr.1
        have hc := L.cont
        simp only [contig] at hc
        simp only
        split
        · -- partial acknowledgement of the first entry: trim it
          rename_i hgt
          rw [hll] at hgt
          have hdat : seg.data ≠ [] := by
            intro hd
            unfold xlen at hgt; simp [hd] at hgt; omega
          have hx : xlen seg = seg.data.length := by unfold xlen; simp [hdat]
          rw [hx] at hgt
          have Lt := LF_trim s.gW s.gIss1 s.gNxt seg rest ackLeft L hpos hgt (by omega)
          refine ⟨Lt, rfl, rfl, rfl, rfl, rfl, rfl, ?_, fun h => (by cases h), ?_, ?_⟩
          · intro x t h
            have : x = { seg with data := seg.data.drop ackLeft, seq := addS seg.seq ackLeft, gOff := seg.gOff + ackLeft } := by
              have := (List.cons.inj h).1; exact this.symm
            rw [this]; show seg.gOff + ackLeft = u + ackLeft; rw [hgu]
          · -- writeNext still points at the same entry (or at the trimmed head)
            show offAt ({ s with writeList := { seg with data := seg.data.drop ackLeft, seq := addS seg.seq ackLeft, gOff := seg.gOff + ackLeft } :: rest } : Snd) s.writeNext ≤ s.gNxt
            unfold offAt at hwn ⊢
            rw [hwl] at hwn
            cases hw : s.writeNext with
            | zero => simp; omega
            | succ k => rw [hw] at hwn; simpa using hwn
          · intro x hx hd
            rcases List.mem_cons.mp hx with hx | hx
            · subst hx
              exfalso
              have : (List.drop ackLeft seg.data).length = 0 := by rw [show List.drop ackLeft seg.data = [] from hd]; rfl
              rw [List.length_drop] at this; omega
            · rw [hwl]; exact List.mem_cons_of_mem _ hx
        · -- the first entry is acknowledged whole: remove it, go on
          rename_i hle
          rw [hll] at hle
          have hle' : xlen seg ≤ ackLeft := by omega
          have Lr := LF_tail _ _ _ seg rest L
          -- where the rest starts, in sequence space
          have hnext : (∀ x t, rest = x :: t → x.gOff = u + xlen seg) ∧ (rest = [] → s.gW.length ≤ u + xlen seg) := by
            by_cases hd : seg.data = []
            · have hr := hc.2.1 hd
              subst hr
              have hend := hc.2.2
              simp only [contig, hd, List.length_nil, Nat.add_zero] at hend
              exact ⟨fun x t h => (by cases h), fun _ => (by unfold xlen; simp [hd]; omega)⟩
            · have hx : xlen seg = seg.data.length := by unfold xlen; simp [hd]
              rw [hx]
              refine ⟨fun x t h => ?_, fun h => ?_⟩
              · subst h
                have := hc.2.2
                simp only [contig] at this
                rw [this.1, hgu]
              · subst h
                have := hc.2.2
                simp only [contig] at this
                omega
          have hrec := ih { s with writeList := rest, writeNext := (if s.writeNext == 0 then 0 else s.writeNext - 1),
                                   outstanding := s.outstanding - 1, gAcked := s.gAcked + 1 }
            (ackLeft - seg.logicalLen) (u + xlen seg) Lr hnext.1 hnext.2
            (by rw [hll]; show u + xlen seg + (ackLeft - xlen seg) ≤ s.gNxt; omega)
            (by show rest.length < n; rw [hwl] at hfuel; simp at hfuel; omega)
            (by
              -- the write pointer
              show offAt ({ s with writeList := rest } : Snd) (if s.writeNext == 0 then 0 else s.writeNext - 1) ≤ s.gNxt
              unfold offAt at hwn ⊢
              rw [hwl] at hwn
              cases hw : s.writeNext with
              | zero =>
                simp only [beq_self_eq_true, if_true]
                cases rest with
                | nil => simp; have := hnext.2 rfl; have : xlen seg ≤ ackLeft := hle'
                         by_cases hd : seg.data = []
                         · have hend := hc.2.2; simp only [contig, hd, List.length_nil, Nat.add_zero] at hend; omega
                         · have hend := hc.2.2; simp only [contig] at hend; omega
                | cons z t => simp; have := hnext.1 z t rfl; omega
              | succ k =>
                rw [hw] at hwn
                simp only [Nat.add_one_ne_zero, beq_iff_eq, if_false, Nat.add_sub_cancel]
                simpa using hwn)
          obtain ⟨r1, r2, r3, r4, r5, r6, r7, r8, r9, r10, r11⟩ := hrec
          have hsum : u + xlen seg + (ackLeft - seg.logicalLen) = u + ackLeft := by rw [hll]; omega
          refine ⟨r1, r2, r3, r4, r5, r6, r7, ?_, ?_, r10, ?_⟩
          · intro x t h; rw [r8 x t h, hsum]
          · intro h; have := r9 h; rw [hsum] at this; exact this
          · intro x hx hd; rw [hwl]; exact List.mem_cons_of_mem _ (r11 x hx hd)

theorem renoCA_keep (s : Snd) (n : Nat) :
    ck (renoCA s n) = ck s ∧ (renoCA s n).writeNext = s.writeNext ∧ (renoCA s n).maxPayload = s.maxPayload := by
  unfold renoCA; simp only; split <;> exact ⟨rfl, rfl, rfl⟩

theorem renoUpdate_keep (s : Snd) (n : Nat) :
    ck (renoUpdate s n) = ck s ∧ (renoUpdate s n).writeNext = s.writeNext ∧ (renoUpdate s n).maxPayload = s.maxPayload := by
  unfold renoUpdate
  split
  · unfold renoSlowStart
    split
    · simp only
      split
      · exact ⟨rfl, rfl, rfl⟩
      · exact renoCA_keep _ _
    · simp only
      split
      · exact ⟨rfl, rfl, rfl⟩
      · exact renoCA_keep _ _
  · exact renoCA_keep _ _

/-- the congestion update and the clamp of `outstanding` after the ACK loop touch nothing the invariant reads -/
theorem post_keep (A : Snd) (d : Nat) :
    ck (if (if !A.fr.active then renoUpdate A d else A).outstanding < 0 then { (if !A.fr.active then renoUpdate A d else A) with outstanding := 0 }
        else (if !A.fr.active then renoUpdate A d else A)) = ck A ∧
    (if (if !A.fr.active then renoUpdate A d else A).outstanding < 0 then { (if !A.fr.active then renoUpdate A d else A) with outstanding := 0 }
        else (if !A.fr.active then renoUpdate A d else A)).writeNext = A.writeNext ∧
    (if (if !A.fr.active then renoUpdate A d else A).outstanding < 0 then { (if !A.fr.active then renoUpdate A d else A) with outstanding := 0 }
        else (if !A.fr.active then renoUpdate A d else A)).maxPayload = A.maxPayload := by
  have k := renoUpdate_keep A d
  by_cases hf : A.fr.active = true
  · simp only [hf, Bool.not_true, Bool.false_eq_true, if_false]
    split <;> exact ⟨rfl, rfl, rfl⟩
  · have hf' : A.fr.active = false := by simpa using hf
    simp only [hf', Bool.not_false, if_true]
    split
    · exact ⟨k.1, k.2.1, k.2.2⟩
    · exact k

/-- what a new acknowledgement means in stream offsets: it acknowledges `k ≥ 1` units, all of them transmitted -/
theorem ack_range (s : Snd) (ack : Nat) (I : Core s) (hB : s.gW.length + 1 < 2147483648)
    (hr : inRange (subS ack 1) s.sndUna s.sndNxt = true) :
    1 ≤ sizeS s.sndUna ack ∧ s.gUna + sizeS s.sndUna ack ≤ s.gNxt ∧
    ack % 4294967296 = addS s.gIss1 (s.gUna + sizeS s.sndUna ack) := by
  rw [Props.C05.inRange_iff] at hr
  have hu := I.una
  have hn := I.nxt
  have ho := I.ord
  rw [hn] at hr
  unfold sizeS subS addS M at *
  generalize s.sndUna % 4294967296 = U at *
  omega

theorem ackLoop_maxPayload (fuel : Nat) : ∀ (s : Snd) (a : Nat), (ackLoop fuel s a).maxPayload = s.maxPayload := by
  induction fuel with
  | zero => intro s a; rfl
  | succ n ih =>
    intro s a
    unfold ackLoop
    split
    · rfl
    · split
      · rfl
      · simp only
        split
        · rfl
        · rw [ih]

/-- the state handed to the ACK loop -/
def ackStart (s : Snd) (ack : Nat) : Snd :=
  { s with dupAck := 0, timerEnabled := false, sndUna := ack, gUna := s.gUna + sizeS s.sndUna ack, gEdge := max s.gEdge (s.gUna + sizeS s.sndUna ack + s.sndWnd % M) }

theorem ackLoop_SInv (s : Snd) (ack : Nat) (I : SInv s) (hB : s.gW.length + 1 < 2147483648)
    (hr : inRange (subS ack 1) s.sndUna s.sndNxt = true) (A : Snd)
    (hA : A = ackLoop (s.writeList.length + 1) (ackStart s ack) (sizeS s.sndUna ack)) :
    SInv A ∧ A.gW = s.gW ∧ A.gIss1 = s.gIss1 ∧ A.maxPayload = s.maxPayload ∧ A.gNxt = s.gNxt ∧
    (∀ x ∈ A.writeList, x.data = [] → x ∈ s.writeList) := by
  obtain ⟨k1, k2, k3⟩ := ack_range s ack I.core hB hr
  have C := I.core
  have spec := ackLoop_spec (s.writeList.length + 1) (ackStart s ack) (sizeS s.sndUna ack) s.gUna (LF_of_core s C)
    (fun x t h => by
      have h' : s.writeList = x :: t := h
      have := C.hd (by rw [h']; simp)
      simp only [headOff, h'] at this; exact this)
    C.emp k2 (Nat.lt_succ_self _) I.wn
  rw [← hA] at spec
  obtain ⟨r1, r2, r3, r4, r5, r6, r7, r8, r9, r10, r11⟩ := spec
  have r2' : A.gW = s.gW := r2
  have r3' : A.gIss1 = s.gIss1 := r3
  have r4' : A.gNxt = s.gNxt := r4
  have r5' : A.sndUna = ack := r5
  have r6' : A.sndNxt = s.sndNxt := r6
  have r7' : A.gUna = s.gUna + sizeS s.sndUna ack := r7
  have hmp : A.maxPayload = s.maxPayload := by rw [hA]; exact ackLoop_maxPayload _ _ _
  have coreA : Core A := by
    refine ⟨?_, by rw [r2', r3']; exact r1.ents, r1.fl, by rw [r5', r3', r7']; exact k3, by rw [r6', r3', r4']; exact C.nxt,
      by rw [r7', r4', r2']; exact ⟨k2, C.ord.2⟩, ?_, ?_, by rw [r4']; exact r1.front⟩
    · have := r1.cont
      unfold headOff
      rw [r2']
      exact this
    · intro hne
      rw [r7']
      unfold headOff
      cases hw : A.writeList with
      | nil => exact absurd hw hne
      | cons x t => exact r8 x t hw
    · intro he; rw [r2', r7']; exact r9 he
  exact ⟨⟨coreA, by rw [r4']; exact r10⟩, r2', r3', hmp, r4', r11⟩

theorem post_SInv (A : Snd) (d : Nat) (I : SInv A) :
    SInv (if (if !A.fr.active then renoUpdate A d else A).outstanding < 0 then { (if !A.fr.active then renoUpdate A d else A) with outstanding := 0 }
        else (if !A.fr.active then renoUpdate A d else A)) := by
  have hk := post_keep A d
  generalize (if (if !A.fr.active then renoUpdate A d else A).outstanding < 0 then { (if !A.fr.active then renoUpdate A d else A) with outstanding := 0 }
        else (if !A.fr.active then renoUpdate A d else A)) = R at hk
  have hck := hk.1
  simp only [ck, Prod.mk.injEq] at hck
  obtain ⟨c1, c2, c3, c4, c5, c6, c7⟩ := hck
  exact ⟨core_congr hk.1 I.core, by rw [hk.2.1, c7, offAt_congr c1 c2]; exact I.wn⟩

/-- **an acknowledgement of new data keeps the sender invariant** -/
theorem ackAdvance_SInv (s : Snd) (ack : Nat) (I : SInv s) (hB : s.gW.length + 1 < 2147483648)
    (hr : inRange (subS ack 1) s.sndUna s.sndNxt = true) :
    SInv (ackAdvance s ack) ∧ (ackAdvance s ack).gW = s.gW ∧ (ackAdvance s ack).gIss1 = s.gIss1 ∧
    (ackAdvance s ack).maxPayload = s.maxPayload ∧ (ackAdvance s ack).gNxt = s.gNxt ∧
    (∀ x ∈ (ackAdvance s ack).writeList, x.data = [] → x ∈ s.writeList) := by
  obtain ⟨a1, a2, a3, a4, a5, a6⟩ := ackLoop_SInv s ack I hB hr _ rfl
  have hk := post_keep (ackLoop (s.writeList.length + 1) (ackStart s ack) (sizeS s.sndUna ack))
    (if s.outstanding - (ackLoop (s.writeList.length + 1) (ackStart s ack) (sizeS s.sndUna ack)).outstanding < 0 then 0
     else (s.outstanding - (ackLoop (s.writeList.length + 1) (ackStart s ack) (sizeS s.sndUna ack)).outstanding).toNat)
  have hp := post_SInv _ (if s.outstanding - (ackLoop (s.writeList.length + 1) (ackStart s ack) (sizeS s.sndUna ack)).outstanding < 0 then 0
     else (s.outstanding - (ackLoop (s.writeList.length + 1) (ackStart s ack) (sizeS s.sndUna ack)).outstanding).toNat) a1
  have hck := hk.1
  simp only [ck, Prod.mk.injEq] at hck
  obtain ⟨c1, c2, c3, c4, c5, c6, c7⟩ := hck
  exact ⟨hp, c2.trans a2, c3.trans a3, hk.2.2.trans a4, c7.trans a5, fun x hx hd => a6 x (c1 ▸ hx) hd⟩

theorem cda_keep (s : Snd) (ack len wnd : Nat) :
    ck (checkDuplicateAck s ack len wnd).1 = ck s ∧ (checkDuplicateAck s ack len wnd).1.writeNext = s.writeNext ∧
    (checkDuplicateAck s ack len wnd).1.maxPayload = s.maxPayload := by
  unfold checkDuplicateAck
  split
  · split
    · exact ⟨rfl, rfl, rfl⟩
    · split
      · exact ⟨rfl, rfl, rfl⟩
      · split
        · exact ⟨rfl, rfl, rfl⟩
        · split
          · simp only; split <;> exact ⟨rfl, rfl, rfl⟩
          · exact ⟨rfl, rfl, rfl⟩
  · split
    · exact ⟨rfl, rfl, rfl⟩
    · simp only
      split
      · exact ⟨rfl, rfl, rfl⟩
      · split <;> exact ⟨rfl, rfl, rfl⟩

theorem sinv_keep {s s' : Snd} (h : ck s' = ck s) (hw : s'.writeNext = s.writeNext) (I : SInv s) : SInv s' := by
  have hck := h
  simp only [ck, Prod.mk.injEq] at hck
  obtain ⟨c1, c2, c3, c4, c5, c6, c7⟩ := hck
  exact ⟨core_congr h I.core, by rw [hw, c7, offAt_congr c1 c2]; exact I.wn⟩

/-- the fast retransmission: the first write-list entry, as it stands -/
theorem resend_good (e : Ep) (I : Core e.snd) :
    (∀ o ∈ (resendSegment e).2, Good e.snd.gW e.snd.gIss1 o) ∧ ck (resendSegment e).1.snd = ck e.snd ∧
    (resendSegment e).1.snd.writeNext = e.snd.writeNext ∧ (resendSegment e).1.snd.maxPayload = e.snd.maxPayload ∧
    (resendSegment e).1.sndClosed = e.sndClosed := by
  unfold resendSegment
  cases hw : e.snd.writeList.head? with
  | none => exact ⟨fun o ho => by simp at ho, rfl, rfl, rfl, rfl⟩
  | some x =>
    have hfr := sendSegment_frame e x.data x.flags x.seq
    have hout := sendSegment_out e x.data x.flags x.seq
    have hx : x ∈ e.snd.writeList := List.mem_of_mem_head? hw
    have hok := I.ents x hx
    have hcm := contig_mem _ _ _ I.cont x hx
    refine ⟨?_, by rw [hfr.1]; rfl, by rw [hfr.1], by rw [hfr.1], hfr.2.2.2.2.2.2.2.2.1⟩
    intro o ho
    simp only [List.mem_singleton] at ho
    subst ho
    intro hne hfl
    rw [hout.1] at hne ⊢
    rw [hout.2.1]
    rw [hout.2.2.1] at hfl
    exact ⟨x.gOff, hok.2 hfl, hok.1, hcm.2⟩

theorem sndPrepare_SEB (e : Ep) (seg : InSeg) (wnd : Nat) (ts : Model.Header.TCPOpts) (h : SEB e) :
    SEB (sndPrepare e seg wnd ts).1 ∧ (sndPrepare e seg wnd ts).1.snd.gW = e.snd.gW ∧
    (sndPrepare e seg wnd ts).1.snd.gIss1 = e.snd.gIss1 ∧ (∀ o ∈ (sndPrepare e seg wnd ts).2, Good e.snd.gW e.snd.gIss1 o) := by
  have e0s : (updateRecentTimestamp e ts.tsVal e.snd.maxSentAck seg.seq).snd = e.snd ∧
      (updateRecentTimestamp e ts.tsVal e.snd.maxSentAck seg.seq).sndClosed = e.sndClosed := by
    unfold updateRecentTimestamp; split <;> exact ⟨rfl, rfl⟩
  have ck0 := cda_keep e.snd seg.ack seg.logicalLen wnd
  -- the sender state after the duplicate-ACK bookkeeping and the window update
  have Is : SInv ({ (checkDuplicateAck e.snd seg.ack seg.logicalLen wnd).1 with sndWnd := wnd, gEdge := max (checkDuplicateAck e.snd seg.ack seg.logicalLen wnd).1.gEdge ((checkDuplicateAck e.snd seg.ack seg.logicalLen wnd).1.gUna + wnd % M) } : Snd) :=
    sinv_keep (s := e.snd) ck0.1 ck0.2.1 h.se.inv
  have hck0 := ck0.1
  simp only [ck, Prod.mk.injEq] at hck0
  obtain ⟨c1, c2, c3, c4, c5, c6, c7⟩ := hck0
  -- the endpoint before the retransmission decision
  have key : ∀ e1 : Ep, SEB e1 → e1.snd.gW = e.snd.gW → e1.snd.gIss1 = e.snd.gIss1 →
      SEB (if (checkDuplicateAck e.snd seg.ack seg.logicalLen wnd).2 = true then resendSegment e1 else (e1, [])).1 ∧
      (if (checkDuplicateAck e.snd seg.ack seg.logicalLen wnd).2 = true then resendSegment e1 else (e1, [])).1.snd.gW = e.snd.gW ∧
      (if (checkDuplicateAck e.snd seg.ack seg.logicalLen wnd).2 = true then resendSegment e1 else (e1, [])).1.snd.gIss1 = e.snd.gIss1 ∧
      (∀ o ∈ (if (checkDuplicateAck e.snd seg.ack seg.logicalLen wnd).2 = true then resendSegment e1 else (e1, [])).2, Good e.snd.gW e.snd.gIss1 o) := by
    intro e1 h1 hw hi
    split
    · obtain ⟨g1, g2, g3, g4, g5⟩ := resend_good e1 h1.se.inv.core
      have hck := g2
      simp only [ck, Prod.mk.injEq] at hck
      obtain ⟨d1, d2, d3, d4, d5, d6, d7⟩ := hck
      refine ⟨⟨⟨sinv_keep g2 g3 h1.se.inv, ?_⟩, by rw [d2]; exact h1.bnd, by rw [g4]; exact h1.mp⟩, by rw [d2, hw], by rw [d3, hi], ?_⟩
      · intro hc; rw [g5] at hc; rw [d1, d7, d2]; exact h1.se.nofin hc
      · intro o ho; rw [← hw, ← hi]; exact g1 o ho
    · exact ⟨h1, hw, hi, fun o ho => by simp at ho⟩
  unfold sndPrepare
  simp only
  rw [e0s.1]
  apply key
  · split
    · rename_i hr
      obtain ⟨a1, a2, a3, a4, a5, a6⟩ := ackAdvance_SInv _ seg.ack Is (by show (checkDuplicateAck e.snd seg.ack seg.logicalLen wnd).1.gW.length + 1 < _; rw [c2]; exact h.bnd) hr
      refine ⟨⟨a1, ?_⟩, by rw [a2]; show (checkDuplicateAck e.snd seg.ack seg.logicalLen wnd).1.gW.length + 1 < _; rw [c2]; exact h.bnd,
        by rw [a4]; show 0 < (checkDuplicateAck e.snd seg.ack seg.logicalLen wnd).1.maxPayload; rw [ck0.2.2]; exact h.mp⟩
      intro hc
      have hc' : e.sndClosed = false := by rw [← e0s.2]; exact hc
      obtain ⟨n1, n2⟩ := h.se.nofin hc'
      refine ⟨?_, ?_⟩
      · intro x hx hd
        have := a6 x hx hd
        have hx' : x ∈ e.snd.writeList := by rw [← c1]; exact this
        exact n1 x hx' hd
      · show (ackAdvance _ seg.ack).gNxt ≤ (ackAdvance _ seg.ack).gW.length
        rw [a5, a2]
        show (checkDuplicateAck e.snd seg.ack seg.logicalLen wnd).1.gNxt ≤ (checkDuplicateAck e.snd seg.ack seg.logicalLen wnd).1.gW.length
        rw [c7, c2]; exact n2
    · refine ⟨⟨Is, ?_⟩, by show (checkDuplicateAck e.snd seg.ack seg.logicalLen wnd).1.gW.length + 1 < _; rw [c2]; exact h.bnd,
        by show 0 < (checkDuplicateAck e.snd seg.ack seg.logicalLen wnd).1.maxPayload; rw [ck0.2.2]; exact h.mp⟩
      intro hc
      have hc' : e.sndClosed = false := by rw [← e0s.2]; exact hc
      obtain ⟨n1, n2⟩ := h.se.nofin hc'
      show (∀ x ∈ (checkDuplicateAck e.snd seg.ack seg.logicalLen wnd).1.writeList, x.data ≠ []) ∧
        (checkDuplicateAck e.snd seg.ack seg.logicalLen wnd).1.gNxt ≤ (checkDuplicateAck e.snd seg.ack seg.logicalLen wnd).1.gW.length
      rw [c1, c7, c2]; exact ⟨n1, n2⟩
  · split
    · rename_i hr
      obtain ⟨a1, a2, a3, a4, a5, a6⟩ := ackAdvance_SInv _ seg.ack Is (by show (checkDuplicateAck e.snd seg.ack seg.logicalLen wnd).1.gW.length + 1 < _; rw [c2]; exact h.bnd) hr
      show (ackAdvance _ seg.ack).gW = e.snd.gW
      rw [a2]; exact c2
    · exact c2
  · split
    · rename_i hr
      obtain ⟨a1, a2, a3, a4, a5, a6⟩ := ackAdvance_SInv _ seg.ack Is (by show (checkDuplicateAck e.snd seg.ack seg.logicalLen wnd).1.gW.length + 1 < _; rw [c2]; exact h.bnd) hr
      show (ackAdvance _ seg.ack).gIss1 = e.snd.gIss1
      rw [a3]; exact c3
    · exact c3

/-- **one incoming segment at the sender** (ACK processing, fast retransmission, then `sendData`) -/
theorem sndHandleSegment_SEB (e : Ep) (seg : InSeg) (wnd : Nat) (ts : Model.Header.TCPOpts) (h : SEB e) :
    SEB (sndHandleSegment e seg wnd ts).1 ∧ (sndHandleSegment e seg wnd ts).1.snd.gW = e.snd.gW ∧
    (sndHandleSegment e seg wnd ts).1.snd.gIss1 = e.snd.gIss1 ∧ (∀ o ∈ (sndHandleSegment e seg wnd ts).2, Good e.snd.gW e.snd.gIss1 o) := by
  obtain ⟨p1, p2, p3, p4⟩ := sndPrepare_SEB e seg wnd ts h
  obtain ⟨q1, q2, q3, q4⟩ := sendData_SEB _ p1
  unfold sndHandleSegment
  refine ⟨q1, q2.trans p2, q3.trans p3, ?_⟩
  intro o ho
  rcases List.mem_append.mp ho with ho | ho
  · exact p4 o ho
  · have := q4 o ho; rw [p2, p3] at this; exact this

/-! ### `maxPayload` never changes -/

theorem sendDataLoop_mp (fuel : Nat) (e : Ep) (i : Nat) (out : List OutSeg) :
    (sendDataLoop fuel e i out).1.snd.maxPayload = e.snd.maxPayload := by
  induction fuel generalizing e i out with
  | zero => rfl
  | succ n ih =>
    unfold sendDataLoop
    have hm := Props.C05.sendStep_maxPayload e i
    split
    · rename_i e' heq; exact hm.1 _ heq
    · rename_i e' o heq; rw [ih]; exact hm.2 _ _ heq

theorem sendData_mp (e : Ep) : (sendData e).1.snd.maxPayload = e.snd.maxPayload := by
  have := sendDataLoop_mp (sendFuel e.snd + 1) e e.snd.writeNext []
  unfold sendData
  simp only
  split <;> exact this

theorem ackAdvance_mp (s : Snd) (ack : Nat) : (ackAdvance s ack).maxPayload = s.maxPayload := by
  have hk := post_keep (ackLoop (s.writeList.length + 1) (ackStart s ack) (sizeS s.sndUna ack))
    (if s.outstanding - (ackLoop (s.writeList.length + 1) (ackStart s ack) (sizeS s.sndUna ack)).outstanding < 0 then 0
     else (s.outstanding - (ackLoop (s.writeList.length + 1) (ackStart s ack) (sizeS s.sndUna ack)).outstanding).toNat)
  exact hk.2.2.trans (ackLoop_maxPayload _ _ _)

theorem sndPrepare_mp (e : Ep) (seg : InSeg) (wnd : Nat) (ts : Model.Header.TCPOpts) :
    (sndPrepare e seg wnd ts).1.snd.maxPayload = e.snd.maxPayload := by
  have e0s : (updateRecentTimestamp e ts.tsVal e.snd.maxSentAck seg.seq).snd = e.snd := by
    unfold updateRecentTimestamp; split <;> rfl
  have ck0 := cda_keep e.snd seg.ack seg.logicalLen wnd
  have key : ∀ e1 : Ep, e1.snd.maxPayload = e.snd.maxPayload →
      (if (checkDuplicateAck e.snd seg.ack seg.logicalLen wnd).2 = true then resendSegment e1 else (e1, [])).1.snd.maxPayload = e.snd.maxPayload := by
    intro e1 h1
    split
    · unfold resendSegment
      split
      · exact h1
      · rw [(sendSegment_frame e1 _ _ _).1]; exact h1
    · exact h1
  unfold sndPrepare
  simp only
  rw [e0s]
  apply key
  split
  · show (ackAdvance _ seg.ack).maxPayload = _
    rw [ackAdvance_mp]; exact ck0.2.2
  · exact ck0.2.2

theorem sndHandleSegment_mp (e : Ep) (seg : InSeg) (wnd : Nat) (ts : Model.Header.TCPOpts) :
    (sndHandleSegment e seg wnd ts).1.snd.maxPayload = e.snd.maxPayload := by
  unfold sndHandleSegment; rw [sendData_mp, sndPrepare_mp]

/-! ### the receive path and `Read` do not touch the sender -/

/-- everything the sender invariant (with its standing assumptions) reads -/
def sk (e : Ep) : (List WSeg × List Nat × Nat × Nat × Nat × Nat × Nat) × Nat × Nat × Bool :=
  (ck e.snd, e.snd.writeNext, e.snd.maxPayload, e.sndClosed)

theorem SEB_of_sk {e e' : Ep} (h : sk e' = sk e) (H : SEB e) : SEB e' := by
  simp only [sk, Prod.mk.injEq] at h
  obtain ⟨h1, h2, h3, h4⟩ := h
  have hck := h1
  simp only [ck, Prod.mk.injEq] at hck
  obtain ⟨c1, c2, c3, c4, c5, c6, c7⟩ := hck
  exact ⟨⟨sinv_keep h1 h2 H.se.inv, by rw [h4, c1, c7, c2]; exact H.se.nofin⟩, by rw [c2]; exact H.bnd, by rw [h3]; exact H.mp⟩

theorem sk_sendSegment (e : Ep) (d : List Nat) (f q : Nat) : sk (sendSegment e d f q).1 = sk e := by
  have h := sendSegment_frame e d f q
  simp only [sk, h.1, h.2.2.2.2.2.2.2.2.1]
  rfl

theorem sk_sendAck (e : Ep) : sk (sendAck e).1 = sk e := sk_sendSegment e [] fAck e.snd.sndNxt

theorem sk_consumeFin (e : Ep) : sk (consumeFin e).1 = sk e := by
  unfold consumeFin
  have := sk_sendAck { e with rcv := { e.rcv with rcvNxt := addS e.rcv.rcvNxt 1 } }
  simp only [sk] at this ⊢
  exact this

theorem sk_deliver (e : Ep) (d : List Nat) : sk (deliver e d) = sk e := by unfold deliver; split <;> rfl

theorem sk_consumeSegment (e : Ep) (fl sq : Nat) (d : List Nat) : sk (consumeSegment e fl sq d).1 = sk e := by
  unfold consumeSegment
  split
  · rfl
  · simp only
    split
    · rw [sk_consumeFin]; exact sk_deliver _ _
    · exact sk_deliver _ _

theorem sk_drainPending (fuel : Nat) (e : Ep) (out : List OutSeg) : sk (drainPending fuel e out).1 = sk e := by
  induction fuel generalizing e out with
  | zero => rfl
  | succ n ih =>
    unfold drainPending
    split
    · rfl
    · split
      · rfl
      · split
        · rw [ih]; rfl
        · simp only
          split
          · rfl
          · rw [ih]
            split
            · exact sk_consumeSegment _ _ _ _
            · exact sk_consumeSegment _ _ _ _

theorem sk_rcvHandleSegment (e : Ep) (seg : InSeg) : sk (rcvHandleSegment e seg).1 = sk e := by
  unfold rcvHandleSegment
  split
  · rfl
  · split
    · exact sk_sendAck e
    · simp only
      split
      · split
        · unfold parkSegment; exact sk_sendAck _
        · rfl
      · rw [sk_drainPending]; exact sk_consumeSegment _ _ _ _

theorem sendAck_nodata (e : Ep) : (sendAck e).2.data = [] := (sendSegment_out e [] fAck e.snd.sndNxt).1

theorem consumeSegment_nodata (e : Ep) (fl sq : Nat) (d : List Nat) : ∀ o ∈ (consumeSegment e fl sq d).2.2, o.data = [] := by
  unfold consumeSegment
  split
  · simp
  · simp only
    split
    · intro o ho
      simp only [List.mem_singleton] at ho
      subst ho
      unfold consumeFin
      exact sendAck_nodata _
    · simp

theorem drainPending_nodata (fuel : Nat) (e : Ep) (out : List OutSeg) (h : ∀ o ∈ out, o.data = []) :
    ∀ o ∈ (drainPending fuel e out).2, o.data = [] := by
  induction fuel generalizing e out with
  | zero => exact h
  | succ n ih =>
    unfold drainPending
    split
    · exact h
    · split
      · exact h
      · split
        · exact ih _ _ h
        · simp only
          split
          · exact h
          · apply ih
            intro o ho
            rcases List.mem_append.mp ho with ho | ho
            · exact h o ho
            · exact consumeSegment_nodata _ _ _ _ o ho

theorem rcvHandleSegment_nodata (e : Ep) (seg : InSeg) : ∀ o ∈ (rcvHandleSegment e seg).2, o.data = [] := by
  unfold rcvHandleSegment
  split
  · simp
  · split
    · intro o ho; simp only [List.mem_singleton] at ho; subst ho; exact sendAck_nodata e
    · simp only
      split
      · split
        · unfold parkSegment
          intro o ho; simp only [List.mem_singleton] at ho; subst ho; exact sendAck_nodata _
        · simp
      · exact drainPending_nodata _ _ _ (consumeSegment_nodata _ _ _ _)

theorem good_nodata (W : List Nat) (g : Nat) (o : OutSeg) (h : o.data = []) : Good W g o := fun hne => absurd h hne

/-- everything a handler emitted is good, and the invariant holds afterwards -/
def Res (e : Ep) (r : Ep × List OutSeg) : Prop :=
  SEB r.1 ∧ r.1.snd.gW = e.snd.gW ∧ r.1.snd.gIss1 = e.snd.gIss1 ∧ r.1.snd.maxPayload = e.snd.maxPayload ∧
  ∀ o ∈ r.2, Good e.snd.gW e.snd.gIss1 o

theorem handleCore_res (e : Ep) (seg : InSeg) (h : SEB e) : Res e ((handleCore e seg).1, (handleCore e seg).2.1) := by
  unfold handleCore
  split
  · exact ⟨h, rfl, rfl, rfl, fun o ho => by simp at ho⟩
  · split
    · split
      · exact ⟨h, rfl, rfl, rfl, fun o ho => by simp at ho⟩
      · have hsk := sk_rcvHandleSegment e seg
        have h1 : SEB (rcvHandleSegment e seg).1 := SEB_of_sk hsk h
        have hsk' := hsk
        simp only [sk, Prod.mk.injEq, ck] at hsk'
        obtain ⟨⟨c1, c2, c3, c4, c5, c6, c7⟩, c8, c9, c10⟩ := hsk'
        obtain ⟨q1, q2, q3, q4⟩ := sndHandleSegment_SEB (rcvHandleSegment e seg).1 seg (seg.wnd <<< e.snd.sndWndScale)
          (Model.Header.parseTCPOptions seg.opts) h1
        have q5 := sndHandleSegment_mp (rcvHandleSegment e seg).1 seg (seg.wnd <<< e.snd.sndWndScale) (Model.Header.parseTCPOptions seg.opts)
        refine ⟨q1, q2.trans c2, q3.trans c3, q5.trans c9, ?_⟩
        intro o ho
        rcases List.mem_append.mp ho with ho | ho
        · exact good_nodata _ _ _ (rcvHandleSegment_nodata e seg o ho)
        · have := q4 o ho; rw [c2, c3] at this; exact this
    · exact ⟨h, rfl, rfl, rfl, fun o ho => by simp at ho⟩

theorem res_trans {e e1 : Ep} {r : Ep × List OutSeg} {out1 : List OutSeg} (h1 : Res e (e1, out1)) (h2 : Res e1 r) :
    Res e (r.1, out1 ++ r.2) := by
  obtain ⟨a1, a2, a3, a4, a5⟩ := h1
  obtain ⟨b1, b2, b3, b4, b5⟩ := h2
  refine ⟨b1, b2.trans a2, b3.trans a3, b4.trans a4, ?_⟩
  intro o ho
  rcases List.mem_append.mp ho with ho | ho
  · exact a5 o ho
  · have := b5 o ho
    have e2 : e1.snd.gW = e.snd.gW := a2
    have e3 : e1.snd.gIss1 = e.snd.gIss1 := a3
    rw [e2, e3] at this; exact this

theorem handleBatch_res (e : Ep) (l : List InSeg) (h : SEB e) : Res e ((handleBatch e l).1, (handleBatch e l).2.1) := by
  induction l generalizing e with
  | nil => exact ⟨h, rfl, rfl, rfl, fun o ho => by simp [handleBatch] at ho⟩
  | cons s rest ih =>
    unfold handleBatch
    simp only
    have hc := handleCore_res e s h
    split
    · exact hc
    · exact res_trans hc (ih _ hc.1)

theorem sk_closeIfDone (e : Ep) : sk (closeIfDone e) = sk e := by unfold closeIfDone; split <;> rfl

theorem finishBatch_res (e : Ep) (out : List OutSeg) (r : Bool) (h : SEB e) :
    SEB (finishBatch e out r).1 ∧ (finishBatch e out r).1.snd.gW = e.snd.gW ∧ (finishBatch e out r).1.snd.gIss1 = e.snd.gIss1 ∧
    (finishBatch e out r).1.snd.maxPayload = e.snd.maxPayload ∧ (∀ o ∈ (finishBatch e out r).2, o ∈ out ∨ o.data = []) := by
  have fromSk : ∀ e' : Ep, sk e' = sk e → SEB e' ∧ e'.snd.gW = e.snd.gW ∧ e'.snd.gIss1 = e.snd.gIss1 ∧ e'.snd.maxPayload = e.snd.maxPayload := by
    intro e' hs
    have hs' := hs
    simp only [sk, Prod.mk.injEq, ck] at hs'
    obtain ⟨⟨c1, c2, c3, c4, c5, c6, c7⟩, c8, c9, c10⟩ := hs'
    exact ⟨SEB_of_sk hs h, c2, c3, c9⟩
  unfold finishBatch
  split
  · obtain ⟨a, b, c, d⟩ := fromSk { e with state := .error, hardError := "connection-reset-by-peer", done := true } rfl
    exact ⟨a, b, c, d, fun o ho => Or.inl ho⟩
  · split
    · obtain ⟨a, b, c, d⟩ := fromSk (closeIfDone (sendAck e).1) (by rw [sk_closeIfDone, sk_sendAck])
      refine ⟨a, b, c, d, ?_⟩
      intro o ho
      rcases List.mem_append.mp ho with ho | ho
      · exact Or.inl ho
      · simp only [List.mem_singleton] at ho; subst ho; exact Or.inr (sendAck_nodata e)
    · obtain ⟨a, b, c, d⟩ := fromSk (closeIfDone e) (sk_closeIfDone e)
      exact ⟨a, b, c, d, fun o ho => Or.inl ho⟩

theorem handleSegmentsLoop_res (fuel : Nat) (e : Ep) (l : List InSeg) (h : SEB e) : Res e (handleSegmentsLoop fuel e l) := by
  induction fuel generalizing e l with
  | zero => exact ⟨h, rfl, rfl, rfl, fun o ho => by simp [handleSegmentsLoop] at ho⟩
  | succ n ih =>
    unfold handleSegmentsLoop
    split
    · exact ⟨h, rfl, rfl, rfl, fun o ho => by simp at ho⟩
    · simp only
      have hb := handleBatch_res e (l.take maxSegmentsPerWake) h
      obtain ⟨b1, b2, b3, b4, b5⟩ := hb
      obtain ⟨f1, f2, f3, f4, f5⟩ := finishBatch_res (handleBatch e (l.take maxSegmentsPerWake)).1 (handleBatch e (l.take maxSegmentsPerWake)).2.1
        (handleBatch e (l.take maxSegmentsPerWake)).2.2 b1
      have hf : Res e (finishBatch (handleBatch e (l.take maxSegmentsPerWake)).1 (handleBatch e (l.take maxSegmentsPerWake)).2.1
          (handleBatch e (l.take maxSegmentsPerWake)).2.2) := by
        refine ⟨f1, f2.trans b2, f3.trans b3, f4.trans b4, ?_⟩
        intro o ho
        rcases f5 o ho with ho | ho
        · exact b5 o ho
        · exact good_nodata _ _ _ ho
      split
      · exact hf
      · exact res_trans hf (ih _ _ hf.1)

theorem handleSegments_res (e : Ep) (l : List InSeg) (h : SEB e) : Res e (handleSegments e l) :=
  handleSegmentsLoop_res _ e l h

/-- a retransmission timeout rewinds the write pointer to the first unacknowledged entry -/
theorem rtoState_SInv (s : Snd) (I : SInv s) : SInv (rtoState s) ∧ ck (rtoState s) = ck s ∧ (rtoState s).maxPayload = s.maxPayload := by
  have hck : ck (rtoState s) = ck s := by
    unfold rtoState reduceSsthresh leaveFastRecovery
    simp only
    split <;> rfl
  have hmp : (rtoState s).maxPayload = s.maxPayload := by
    unfold rtoState reduceSsthresh leaveFastRecovery
    simp only
    split <;> rfl
  have hwn : (rtoState s).writeNext = 0 := by unfold rtoState; rfl
  have hck' := hck
  simp only [ck, Prod.mk.injEq] at hck'
  obtain ⟨c1, c2, c3, c4, c5, c6, c7⟩ := hck'
  refine ⟨⟨core_congr hck I.core, ?_⟩, hck, hmp⟩
  rw [hwn, c7, offAt_congr c1 c2]
  have C := I.core
  unfold offAt
  cases hw : s.writeList with
  | nil => have := C.emp hw; have := C.ord; simp; omega
  | cons x t =>
    have := C.hd (by rw [hw]; simp)
    simp only [headOff, hw] at this
    have := C.ord
    simp; omega

theorem timerEvent_res (e : Ep) (h : SEB e) : Res e (timerEvent e) := by
  unfold timerEvent
  split
  · exact ⟨h, rfl, rfl, rfl, fun o ho => by simp at ho⟩
  · unfold retransmitTimerExpired
    split
    · exact ⟨h, rfl, rfl, rfl, fun o ho => by simp at ho⟩
    · obtain ⟨r1, r2, r3⟩ := rtoState_SInv e.snd h.se.inv
      have r2' := r2
      simp only [ck, Prod.mk.injEq] at r2'
      obtain ⟨c1, c2, c3, c4, c5, c6, c7⟩ := r2'
      have h1 : SEB { e with snd := rtoState e.snd } :=
        ⟨⟨r1, fun hc => (by
              show (∀ x ∈ (rtoState e.snd).writeList, x.data ≠ []) ∧ (rtoState e.snd).gNxt ≤ (rtoState e.snd).gW.length
              rw [c1, c7, c2]; exact h.se.nofin hc)⟩,
         by show (rtoState e.snd).gW.length + 1 < _; rw [c2]; exact h.bnd, by show 0 < (rtoState e.snd).maxPayload; rw [r3]; exact h.mp⟩
      obtain ⟨q1, q2, q3, q4⟩ := sendData_SEB _ h1
      refine ⟨q1, q2.trans c2, q3.trans c3, (sendData_mp _).trans r3, ?_⟩
      intro o ho
      have := q4 o ho
      have e2 : ({ e with snd := rtoState e.snd } : Ep).snd.gW = e.snd.gW := c2
      have e3 : ({ e with snd := rtoState e.snd } : Ep).snd.gIss1 = e.snd.gIss1 := c3
      rw [e2, e3] at this; exact this

theorem emitAt_gW (e0 : Ep) (seg : WSeg) (x : Nat) : (emitAt e0 seg x).1.snd.gW = e0.snd.gW := by
  rw [(emitAt_snd e0 seg x).1]; unfold Snd.bumpNxt; split <;> rfl

theorem sendStep_gW (e : Ep) (i : Nat) :
    (∀ e', sendStep e i = .stop e' → e'.snd.gW = e.snd.gW) ∧ (∀ e' o, sendStep e i = .sent e' o → e'.snd.gW = e.snd.gW) := by
  unfold sendStep
  constructor
  · intro e' he
    split at he
    · cases he; rfl
    · split at he
      · cases he; rfl
      · simp only at he
        split at he
        · cases he
        · split at he
          · cases he; rfl
          · cases he
  · intro e' o he
    split at he
    · cases he
    · split at he
      · cases he
      · simp only at he
        split at he
        · cases he; exact emitAt_gW _ _ _
        · split at he
          · cases he
          · cases he; exact emitAt_gW _ _ _

theorem sendDataLoop_gW (fuel : Nat) (e : Ep) (i : Nat) (out : List OutSeg) : (sendDataLoop fuel e i out).1.snd.gW = e.snd.gW := by
  induction fuel generalizing e i out with
  | zero => rfl
  | succ n ih =>
    unfold sendDataLoop
    have hs := sendStep_gW e i
    split
    · rename_i e' heq; exact hs.1 _ heq
    · rename_i e' o heq; rw [ih]; exact hs.2 _ _ heq

theorem sendData_gW (e : Ep) : (sendData e).1.snd.gW = e.snd.gW := by
  have := sendDataLoop_gW (sendFuel e.snd + 1) e e.snd.writeNext []
  unfold sendData; simp only; split <;> exact this

theorem appRead_res (e : Ep) (h : SEB e) : Res e ((appRead e).1, (appRead e).2.2) := by
  have fromSk : ∀ (e' : Ep) (out : List OutSeg), sk e' = sk e → (∀ o ∈ out, o.data = []) → Res e (e', out) := by
    intro e' out hs ho
    have hs' := hs
    simp only [sk, Prod.mk.injEq, ck] at hs'
    obtain ⟨⟨c1, c2, c3, c4, c5, c6, c7⟩, c8, c9, c10⟩ := hs'
    exact ⟨SEB_of_sk hs h, c2, c3, c9, fun o h' => good_nodata _ _ _ (ho o h')⟩
  unfold appRead
  split
  · exact fromSk e [] rfl (by simp)
  · split
    · exact fromSk e [] rfl (by simp)
    · split
      · exact fromSk e [] rfl (by simp)
      · simp only
        split
        · split
          · exact fromSk _ [] rfl (by simp)
          · refine fromSk _ _ (sk_sendAck _) ?_
            intro o ho; simp only [List.mem_singleton] at ho; subst ho; exact sendAck_nodata _
        · exact fromSk _ [] rfl (by simp)

theorem good_mono (W V : List Nat) (g : Nat) (o : OutSeg) (h : Good W g o) : Good (W ++ V) g o := by
  intro hne hfl
  obtain ⟨off, h1, h2, h3⟩ := h hne hfl
  refine ⟨off, h1, ?_, by rw [List.length_append]; omega⟩
  rw [List.drop_append_of_le_length (by omega), List.take_append_of_le_length (by simp; omega)]
  exact h2

/-- **`Write`**: the accepted bytes are appended to the stream; whatever is transmitted at once is good -/
theorem appWrite_res (e : Ep) (d : List Nat) (h : SEB e) (hb : (appWrite e d).1.snd.gW.length + 1 < 2147483648) :
    SEB (appWrite e d).1 ∧ (appWrite e d).1.snd.gIss1 = e.snd.gIss1 ∧ (appWrite e d).1.snd.maxPayload = e.snd.maxPayload ∧
    (∃ V, (appWrite e d).1.snd.gW = e.snd.gW ++ V) ∧
    ∀ o ∈ (appWrite e d).2.2, Good (appWrite e d).1.snd.gW e.snd.gIss1 o := by
  unfold appWrite at hb ⊢
  split
  · exact ⟨h, rfl, rfl, ⟨[], by simp⟩, fun o ho => by simp at ho⟩
  · rename_i hst
    split
    · exact ⟨h, rfl, rfl, ⟨[], by simp⟩, fun o ho => by simp at ho⟩
    · rename_i hlen
      split
      · exact ⟨h, rfl, rfl, ⟨[], by simp⟩, fun o ho => by simp at ho⟩
      · rename_i hcl
        split
        · exact ⟨h, rfl, rfl, ⟨[], by simp⟩, fun o ho => by simp at ho⟩
        · rename_i hbuf
          simp only at hb ⊢
          have hcl' : e.sndClosed = false := by simpa using hcl
          have hv : d.take (e.sndBufSize - e.sndBufUsed) ≠ [] := by
            intro hd
            have hl : (d.take (e.sndBufSize - e.sndBufUsed)).length = 0 := by rw [hd]; rfl
            rw [List.length_take] at hl
            have : d.length ≠ 0 := by simpa using hlen
            have : ¬ e.sndBufUsed ≥ e.sndBufSize := hbuf
            omega
          have hq := queueWrite_SE e _ hv hcl' h.se
          rw [if_neg hst, if_neg hlen, if_neg hcl, if_neg hbuf] at hb
          simp only at hb
          have hgw : (sendData (queueWrite e (d.take (e.sndBufSize - e.sndBufUsed)))).1.snd.gW = e.snd.gW ++ d.take (e.sndBufSize - e.sndBufUsed) :=
            sendData_gW _
          have hSEB : SEB (queueWrite e (d.take (e.sndBufSize - e.sndBufUsed))) :=
            ⟨hq, by show (e.snd.gW ++ d.take (e.sndBufSize - e.sndBufUsed)).length + 1 < _; rw [← hgw]; exact hb, h.mp⟩
          obtain ⟨q1, q2, q3, q4⟩ := sendData_SEB _ hSEB
          refine ⟨q1, q3, (sendData_mp _).trans rfl, ⟨_, hgw⟩, ?_⟩
          intro o ho
          have := q4 o ho
          rw [hgw]; exact this

theorem appShutdownWrite_res (e : Ep) (h : SEB e) : Res e (appShutdownWrite e) := by
  unfold appShutdownWrite
  split
  · exact ⟨h, rfl, rfl, rfl, fun o ho => by simp at ho⟩
  · rename_i hg
    have hcl : e.sndClosed = false := by
      cases hc : e.sndClosed
      · rfl
      · simp [hc] at hg
    have hq := queueFin_SE e hcl h.se
    have hSEB : SEB (queueFin e) := ⟨hq, h.bnd, h.mp⟩
    obtain ⟨q1, q2, q3, q4⟩ := sendData_SEB _ hSEB
    have hsk : sk (closeIfDone { (sendData (queueFin e)).1 with snd := { (sendData (queueFin e)).1.snd with closed := true } })
        = sk (sendData (queueFin e)).1 := by rw [sk_closeIfDone]; rfl
    have hs' := hsk
    simp only [sk, Prod.mk.injEq, ck] at hs'
    obtain ⟨⟨c1, c2, c3, c4, c5, c6, c7⟩, c8, c9, c10⟩ := hs'
    exact ⟨SEB_of_sk hsk q1, c2.trans q2, c3.trans q3, c9.trans (sendData_mp _), q4⟩

/-! ### what never changes, whatever the state: the segment size; and the stream only grows -/

def mg (e : Ep) : Nat × List Nat := (e.snd.maxPayload, e.snd.gW)

theorem mg_of_sk {e e' : Ep} (h : sk e' = sk e) : mg e' = mg e := by
  simp only [sk, Prod.mk.injEq, ck] at h
  obtain ⟨⟨c1, c2, c3, c4, c5, c6, c7⟩, c8, c9, c10⟩ := h
  simp only [mg, c2, c9]

theorem ackLoop_gW (fuel : Nat) : ∀ (s : Snd) (a : Nat), (ackLoop fuel s a).gW = s.gW := by
  induction fuel with
  | zero => intro s a; rfl
  | succ n ih =>
    intro s a
    unfold ackLoop
    split
    · rfl
    · split
      · rfl
      · simp only
        split
        · rfl
        · rw [ih]

theorem ackAdvance_gW (s : Snd) (ack : Nat) : (ackAdvance s ack).gW = s.gW := by
  have hk := post_keep (ackLoop (s.writeList.length + 1) (ackStart s ack) (sizeS s.sndUna ack))
    (if s.outstanding - (ackLoop (s.writeList.length + 1) (ackStart s ack) (sizeS s.sndUna ack)).outstanding < 0 then 0
     else (s.outstanding - (ackLoop (s.writeList.length + 1) (ackStart s ack) (sizeS s.sndUna ack)).outstanding).toNat)
  have hck := hk.1
  simp only [ck, Prod.mk.injEq] at hck
  exact hck.2.1.trans (ackLoop_gW _ _ _)

theorem sndPrepare_gW (e : Ep) (seg : InSeg) (wnd : Nat) (ts : Model.Header.TCPOpts) :
    (sndPrepare e seg wnd ts).1.snd.gW = e.snd.gW := by
  have e0s : (updateRecentTimestamp e ts.tsVal e.snd.maxSentAck seg.seq).snd = e.snd := by
    unfold updateRecentTimestamp; split <;> rfl
  have ck0 := (cda_keep e.snd seg.ack seg.logicalLen wnd).1
  simp only [ck, Prod.mk.injEq] at ck0
  have key : ∀ e1 : Ep, e1.snd.gW = e.snd.gW →
      (if (checkDuplicateAck e.snd seg.ack seg.logicalLen wnd).2 = true then resendSegment e1 else (e1, [])).1.snd.gW = e.snd.gW := by
    intro e1 h1
    split
    · unfold resendSegment
      split
      · exact h1
      · rw [(sendSegment_frame e1 _ _ _).1]; exact h1
    · exact h1
  unfold sndPrepare
  simp only
  rw [e0s]
  apply key
  split
  · show (ackAdvance _ seg.ack).gW = _
    rw [ackAdvance_gW]; exact ck0.2.1
  · exact ck0.2.1

theorem handleCore_mg (e : Ep) (seg : InSeg) : mg (handleCore e seg).1 = mg e := by
  unfold handleCore
  split
  · rfl
  · split
    · split
      · rfl
      · have h1 := mg_of_sk (sk_rcvHandleSegment e seg)
        simp only [mg, Prod.mk.injEq] at h1 ⊢
        unfold sndHandleSegment
        exact ⟨by rw [sendData_mp, sndPrepare_mp]; exact h1.1, by rw [sendData_gW, sndPrepare_gW]; exact h1.2⟩
    · rfl

theorem handleBatch_mg (e : Ep) (l : List InSeg) : mg (handleBatch e l).1 = mg e := by
  induction l generalizing e with
  | nil => rfl
  | cons s rest ih =>
    unfold handleBatch
    simp only
    split
    · exact handleCore_mg e s
    · rw [ih]; exact handleCore_mg e s

theorem finishBatch_mg (e : Ep) (out : List OutSeg) (r : Bool) : mg (finishBatch e out r).1 = mg e := by
  unfold finishBatch
  split
  · rfl
  · split
    · exact mg_of_sk (by rw [sk_closeIfDone, sk_sendAck])
    · exact mg_of_sk (sk_closeIfDone e)

theorem handleSegmentsLoop_mg (fuel : Nat) (e : Ep) (l : List InSeg) : mg (handleSegmentsLoop fuel e l).1 = mg e := by
  induction fuel generalizing e l with
  | zero => rfl
  | succ n ih =>
    unfold handleSegmentsLoop
    split
    · rfl
    · simp only
      split
      · rw [finishBatch_mg, handleBatch_mg]
      · rw [ih, finishBatch_mg, handleBatch_mg]

theorem appWrite_mg (e : Ep) (d : List Nat) :
    (appWrite e d).1.snd.maxPayload = e.snd.maxPayload ∧ ∃ V, (appWrite e d).1.snd.gW = e.snd.gW ++ V := by
  unfold appWrite
  split
  · exact ⟨rfl, [], by simp⟩
  · split
    · exact ⟨rfl, [], by simp⟩
    · split
      · exact ⟨rfl, [], by simp⟩
      · split
        · exact ⟨rfl, [], by simp⟩
        · exact ⟨sendData_mp _, _, sendData_gW _⟩

theorem appRead_mg (e : Ep) : mg (appRead e).1 = mg e := by
  unfold appRead
  split
  · rfl
  · split
    · rfl
    · split
      · rfl
      · simp only
        split
        · split
          · rfl
          · exact mg_of_sk (sk_sendAck _)
        · rfl

theorem appShutdownWrite_mg (e : Ep) : mg (appShutdownWrite e).1 = mg e := by
  unfold appShutdownWrite
  split
  · rfl
  · have hsk : sk (closeIfDone { (sendData (queueFin e)).1 with snd := { (sendData (queueFin e)).1.snd with closed := true } })
        = sk (sendData (queueFin e)).1 := by rw [sk_closeIfDone]; rfl
    rw [mg_of_sk hsk]
    simp only [mg, sendData_mp, sendData_gW]
    rfl

theorem rtoState_mg (s : Snd) : (rtoState s).maxPayload = s.maxPayload ∧ (rtoState s).gW = s.gW := by
  unfold rtoState reduceSsthresh leaveFastRecovery
  simp only
  split <;> exact ⟨rfl, rfl⟩

theorem timerEvent_mg (e : Ep) : mg (timerEvent e).1 = mg e := by
  unfold timerEvent
  split
  · rfl
  · unfold retransmitTimerExpired
    split
    · rfl
    · simp only [mg, sendData_mp, sendData_gW]
      have := rtoState_mg e.snd
      exact Prod.ext this.1 this.2

/-- a sender that has queued nothing satisfies the invariant -/
theorem SE_fresh (e : Ep) (h1 : e.snd.writeList = []) (h2 : e.snd.gW = []) (h3 : e.snd.gUna = 0) (h4 : e.snd.gNxt = 0)
    (h5 : e.snd.sndUna % 4294967296 = addS e.snd.gIss1 0) (h6 : e.snd.sndNxt = addS e.snd.gIss1 0) : SE e := by
  refine ⟨⟨⟨?_, ?_, ?_, ?_, ?_, ?_, ?_, ?_, ?_⟩, ?_⟩, ?_⟩
  · unfold headOff; rw [h1, h2]; rfl
  · intro x hx; rw [h1] at hx; simp at hx
  · intro x hx; rw [h1] at hx; simp at hx
  · rw [h3]; exact h5
  · rw [h4]; exact h6
  · rw [h3, h4, h2]; exact ⟨Nat.le_refl _, by simp⟩
  · intro hne; exact absurd h1 hne
  · intro _; rw [h2, h3]; simp
  · intro x hx; rw [h1] at hx; simp at hx
  · unfold offAt; rw [h1, h2, h4]; simp
  · intro _; rw [h1, h2, h4]; exact ⟨fun x hx => by simp at hx, by simp⟩

open Props.TcpReach in
/-- the sender invariant (under its standing assumptions) is kept by every endpoint handler -/
theorem send_inv : EpInv (fun e => e.snd.gW.length + 1 < 2147483648 ∧ 0 < e.snd.maxPayload → SE e) where
  fresh := by
    intros
    refine SE_fresh _ rfl rfl rfl rfl ?_ ?_
    · show (addS _ 1) % 4294967296 = addS (addS _ 1) 0
      unfold addS M; omega
    · show addS _ 1 = addS (addS _ 1) 0
      unfold addS M; omega
  dflt := fun _ => SE_fresh _ rfl rfl rfl rfl (by decide) (by decide)
  failed := fun _ _ => SE_fresh _ rfl rfl rfl rfl (by show (0 : Nat) % 4294967296 = addS 0 0; decide) (by show (0 : Nat) = addS 0 0; decide)
  segs := by
    intro e l hP hres
    have hm := handleSegmentsLoop_mg (l.length + 1) e l
    simp only [mg, Prod.mk.injEq] at hm
    have hres' : (handleSegmentsLoop (l.length + 1) e l).1.snd.gW.length + 1 < 2147483648 ∧
        0 < (handleSegmentsLoop (l.length + 1) e l).1.snd.maxPayload := hres
    rw [hm.1, hm.2] at hres'
    exact (handleSegments_res e l ⟨hP hres', hres'.1, hres'.2⟩).1.se
  write := by
    intro e d hP hres
    obtain ⟨m1, V, m2⟩ := appWrite_mg e d
    have hb : e.snd.gW.length + 1 < 2147483648 := by
      have := hres.1; rw [m2, List.length_append] at this; omega
    have hmp : 0 < e.snd.maxPayload := by rw [← m1]; exact hres.2
    exact (appWrite_res e d ⟨hP ⟨hb, hmp⟩, hb, hmp⟩ hres.1).1.se
  read := by
    intro e hP hres
    have hm := appRead_mg e
    simp only [mg, Prod.mk.injEq] at hm
    rw [hm.1, hm.2] at hres
    exact (appRead_res e ⟨hP hres, hres.1, hres.2⟩).1.se
  shut := by
    intro e hP hres
    have hm := appShutdownWrite_mg e
    simp only [mg, Prod.mk.injEq] at hm
    rw [hm.1, hm.2] at hres
    exact (appShutdownWrite_res e ⟨hP hres, hres.1, hres.2⟩).1.se
  timer := by
    intro e hP hres
    have hm := timerEvent_mg e
    simp only [mg, Prod.mk.injEq] at hm
    rw [hm.1, hm.2] at hres
    exact (timerEvent_res e ⟨hP hres, hres.1, hres.2⟩).1.se

open Props.TcpReach in
/-- **C01 (sending direction, reachability)**: in every state the stack can reach, on every connection whose
accepted stream is shorter than 2^31 bytes, the write list is a contiguous cover of the unacknowledged part of the
accepted byte stream, every entry holds exactly the stream's bytes at its offset under the sequence number of that
offset, and `sndUna` / `sndNxt` stand for the offsets they should -/
theorem sender_invariant_reachable (c : Cfg) (ops : List Op) :
    StAll (fun e => e.snd.gW.length + 1 < 2147483648 ∧ 0 < e.snd.maxPayload → SE e) (run c ops).1 :=
  run_all send_inv c ops

/-- **C01 (sending direction, emissions)**: from any state satisfying the invariant, whatever a handler transmits
-- first transmissions, retransmissions after a timeout, fast retransmissions, segments split to fit the window or
the segment size, segments trimmed by partial acknowledgements -- carries, under its sequence number, exactly the
bytes the application wrote at the stream offset that sequence number names: nothing lost, duplicated, reordered
or invented on the way from `Write` to the wire -/
theorem emitted_data_is_the_written_stream (e : Ep) (h : SEB e) :
    (∀ l, ∀ o ∈ (handleSegments e l).2, Good e.snd.gW e.snd.gIss1 o) ∧
    (∀ o ∈ (timerEvent e).2, Good e.snd.gW e.snd.gIss1 o) ∧
    (∀ o ∈ (appShutdownWrite e).2, Good e.snd.gW e.snd.gIss1 o) ∧
    (∀ o ∈ (appRead e).2.2, Good e.snd.gW e.snd.gIss1 o) ∧
    (∀ d, (appWrite e d).1.snd.gW.length + 1 < 2147483648 → ∀ o ∈ (appWrite e d).2.2, Good (appWrite e d).1.snd.gW e.snd.gIss1 o) :=
  ⟨fun l => (handleSegments_res e l h).2.2.2.2, (timerEvent_res e h).2.2.2.2, (appShutdownWrite_res e h).2.2.2.2,
   (appRead_res e h).2.2.2.2, fun d hb => (appWrite_res e d h hb).2.2.2.2⟩

/-- non-vacuity: a fresh connection meets the assumptions; after a `Write` of five bytes the invariant holds and one
data segment with exactly those bytes has been transmitted -/
example :
    let e := newEp 1000 5 65535 1460 0 65535 0 1500 65536 65536 false 0 false
    SEB e ∧ ((appWrite e [1, 2, 3, 4, 5]).2.2.map (fun o => (o.seq, o.data))) = [(1001, [1, 2, 3, 4, 5])] :=
  ⟨⟨SE_fresh _ rfl rfl rfl rfl (by decide) (by decide), by decide, by decide⟩, by decide⟩
end Props.C01
