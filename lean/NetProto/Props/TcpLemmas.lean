import NetProto.Model.TcpStack
import NetProto.Props.C14
/-! Helper lemmas (no property theorems): what the emission functions leave alone, and the sequence-number
arithmetic of `Model.Tcp` in terms of forward distances. -/
namespace Props.TcpLemmas
open Model.Tcp

theorem getSendParams_frame (e : Ep) :
    (getSendParams e).1.snd = e.snd ∧ (getSendParams e).1.done = e.done ∧ (getSendParams e).1.state = e.state ∧
    (getSendParams e).1.rcvList = e.rcvList ∧ (getSendParams e).1.rcv.rcvNxt = e.rcv.rcvNxt ∧
    (getSendParams e).2.1 = e.rcv.rcvNxt ∧ (getSendParams e).1.rcv.closed = e.rcv.closed ∧
    (getSendParams e).1.rcv.pending = e.rcv.pending ∧ (getSendParams e).1.rcvBufUsed = e.rcvBufUsed ∧
    (getSendParams e).1.sndClosed = e.sndClosed ∧ (getSendParams e).1.rcvClosed = e.rcvClosed := by
  unfold getSendParams
  simp only
  split <;> simp

/-- `sendSegment` touches only `maxSentAck` and `rcvAcc` -/
theorem sendSegment_frame (e : Ep) (d : List Nat) (f q : Nat) :
    (sendSegment e d f q).1.snd = { e.snd with maxSentAck := e.rcv.rcvNxt } ∧
    (sendSegment e d f q).1.done = e.done ∧ (sendSegment e d f q).1.state = e.state ∧
    (sendSegment e d f q).1.rcvList = e.rcvList ∧ (sendSegment e d f q).1.rcv.rcvNxt = e.rcv.rcvNxt ∧
    (sendSegment e d f q).1.rcv.closed = e.rcv.closed ∧ (sendSegment e d f q).1.rcv.pending = e.rcv.pending ∧
    (sendSegment e d f q).1.rcvBufUsed = e.rcvBufUsed ∧ (sendSegment e d f q).1.sndClosed = e.sndClosed ∧
    (sendSegment e d f q).1.rcvClosed = e.rcvClosed := by
  have h := getSendParams_frame e
  unfold sendSegment
  simp [h.1, h.2.1, h.2.2.1, h.2.2.2.1, h.2.2.2.2.1, h.2.2.2.2.2.1, h.2.2.2.2.2.2.1, h.2.2.2.2.2.2.2.1,
    h.2.2.2.2.2.2.2.2.1, h.2.2.2.2.2.2.2.2.2.1, h.2.2.2.2.2.2.2.2.2.2]

/-- what `sendSegment` puts on the wire -/
theorem sendSegment_out (e : Ep) (d : List Nat) (f q : Nat) :
    (sendSegment e d f q).2.data = d ∧ (sendSegment e d f q).2.seq = q ∧ (sendSegment e d f q).2.flags = f ∧
    (sendSegment e d f q).2.ack = e.rcv.rcvNxt := by
  have h := getSendParams_frame e
  unfold sendSegment sendRaw
  simp [h.2.2.2.2.2.1]

theorem bumpNxt_frame (s : Snd) (x : Nat) :
    (s.bumpNxt x).sndUna = s.sndUna ∧ (s.bumpNxt x).sndWnd = s.sndWnd ∧ (s.bumpNxt x).maxPayload = s.maxPayload ∧
    (s.bumpNxt x).cwnd = s.cwnd ∧ (s.bumpNxt x).outstanding = s.outstanding ∧ (s.bumpNxt x).writeList = s.writeList ∧
    (s.bumpNxt x).timerEnabled = s.timerEnabled ∧ (s.bumpNxt x).maxSentAck = s.maxSentAck ∧
    (s.bumpNxt x).sndNxtList = s.sndNxtList ∧ (s.bumpNxt x).closed = s.closed := by
  unfold Snd.bumpNxt
  split <;> simp

/-- `emitAt`: the segment goes out as prepared; the sender keeps everything but `sndNxt` / `maxSentAck` -/
theorem emitAt_frame (e : Ep) (seg : WSeg) (x : Nat) :
    (emitAt e seg x).2.data = seg.data ∧ (emitAt e seg x).2.seq = seg.seq ∧ (emitAt e seg x).2.flags = seg.flags ∧
    (emitAt e seg x).1.snd.sndUna = e.snd.sndUna ∧ (emitAt e seg x).1.snd.sndWnd = e.snd.sndWnd ∧
    (emitAt e seg x).1.snd.maxPayload = e.snd.maxPayload ∧ (emitAt e seg x).1.snd.cwnd = e.snd.cwnd ∧
    (emitAt e seg x).1.snd.outstanding = e.snd.outstanding ∧ (emitAt e seg x).1.snd.writeList = e.snd.writeList ∧
    (emitAt e seg x).1.snd.timerEnabled = e.snd.timerEnabled ∧ (emitAt e seg x).1.done = e.done ∧
    (emitAt e seg x).1.rcvList = e.rcvList ∧ (emitAt e seg x).1.snd.sndNxtList = e.snd.sndNxtList := by
  have h := sendSegment_frame e seg.data seg.flags seg.seq
  have o := sendSegment_out e seg.data seg.flags seg.seq
  have b := bumpNxt_frame (sendSegment e seg.data seg.flags seg.seq).1.snd x
  simp only [emitAt]
  refine ⟨o.1, o.2.1, o.2.2.1, ?_, ?_, ?_, ?_, ?_, ?_, ?_, h.2.1, h.2.2.2.1, ?_⟩
  · rw [b.1, h.1]
  · rw [b.2.1, h.1]
  · rw [b.2.2.1, h.1]
  · rw [b.2.2.2.1, h.1]
  · rw [b.2.2.2.2.1, h.1]
  · rw [b.2.2.2.2.2.1, h.1]
  · rw [b.2.2.2.2.2.2.1, h.1]
  · rw [b.2.2.2.2.2.2.2.2.1, h.1]

/-! ## sequence arithmetic -/

theorem bv_fwd (a b : Nat) : C14.fwd (bv a) (bv b) = sizeS a b := by
  unfold C14.fwd bv sizeS M
  simp only [BitVec.toNat_sub, BitVec.toNat_ofNat, Nat.reducePow]
  omega

theorem lt_iff (a b : Nat) : lt a b = true ↔ (1 ≤ sizeS a b ∧ sizeS a b ≤ 2147483648) := by
  unfold lt
  rw [C14.model_eq_generated.1]
  have h := C14.lessThan_iff (bv a) (bv b)
  rw [bv_fwd] at h
  simpa using h

theorem inWindow_iff (v f s : Nat) : inWindow v f s = true ↔ sizeS f v < s % 4294967296 := by
  unfold inWindow
  rw [C14.model_eq_generated.2.2.2.1]
  have h := C14.inWindow_iff (bv v) (bv f) (bv s)
  rw [bv_fwd] at h
  simpa [bv] using h

theorem sizeS_lt_M (a b : Nat) : sizeS a b < 4294967296 := by unfold sizeS M; omega

theorem sizeS_self (a : Nat) : sizeS a a = 0 := by unfold sizeS M; omega

theorem sizeS_addS (a k : Nat) (hk : k < 4294967296) : sizeS a (addS a k) = k := by unfold sizeS addS M; omega

end Props.TcpLemmas

namespace Props.TcpLemmas
open Model.Tcp

/-- the receiving half is untouched -/
def RcvSame (e e' : Ep) : Prop :=
  e'.rcvList = e.rcvList ∧ e'.rcv.rcvNxt = e.rcv.rcvNxt ∧ e'.rcv.closed = e.rcv.closed ∧ e'.rcv.pending = e.rcv.pending ∧
  e'.rcvBufUsed = e.rcvBufUsed ∧ e'.rcvClosed = e.rcvClosed

theorem RcvSame.refl (e : Ep) : RcvSame e e := ⟨rfl, rfl, rfl, rfl, rfl, rfl⟩
theorem RcvSame.trans {a b c : Ep} (h1 : RcvSame a b) (h2 : RcvSame b c) : RcvSame a c :=
  ⟨h2.1.trans h1.1, h2.2.1.trans h1.2.1, h2.2.2.1.trans h1.2.2.1, h2.2.2.2.1.trans h1.2.2.2.1,
   h2.2.2.2.2.1.trans h1.2.2.2.2.1, h2.2.2.2.2.2.trans h1.2.2.2.2.2⟩

theorem sendSegment_rcvSame (e : Ep) (d : List Nat) (f q : Nat) : RcvSame e (sendSegment e d f q).1 := by
  have h := sendSegment_frame e d f q
  exact ⟨h.2.2.2.1, h.2.2.2.2.1, h.2.2.2.2.2.1, h.2.2.2.2.2.2.1, h.2.2.2.2.2.2.2.1, h.2.2.2.2.2.2.2.2.2⟩

theorem sendAck_rcvSame (e : Ep) : RcvSame e (sendAck e).1 := sendSegment_rcvSame e [] fAck e.snd.sndNxt

theorem emitAt_rcvSame (e : Ep) (seg : WSeg) (x : Nat) : RcvSame e (emitAt e seg x).1 := by
  have h := sendSegment_rcvSame e seg.data seg.flags seg.seq
  exact h

theorem sendStep_rcvSame (e : Ep) (i : Nat) :
    (∀ e', sendStep e i = .stop e' → RcvSame e e') ∧ (∀ e' o, sendStep e i = .sent e' o → RcvSame e e') := by
  unfold sendStep
  constructor
  · intro e' he
    split at he
    · cases he; exact RcvSame.refl _
    · split at he
      · cases he; exact RcvSame.refl _
      · simp only at he
        split at he
        · cases he
        · split at he
          · cases he; exact RcvSame.refl _
          · cases he
  · intro e' o he
    split at he
    · cases he
    · split at he
      · cases he
      · simp only at he
        split at he
        · cases he; exact emitAt_rcvSame _ _ _
        · split at he
          · cases he
          · cases he; exact emitAt_rcvSame _ _ _

theorem sendDataLoop_rcvSame (fuel : Nat) (e : Ep) (i : Nat) (out : List OutSeg) : RcvSame e (sendDataLoop fuel e i out).1 := by
  induction fuel generalizing e i out with
  | zero => exact RcvSame.refl _
  | succ n ih =>
    unfold sendDataLoop
    have hs := sendStep_rcvSame e i
    split
    · rename_i e' heq; exact hs.1 _ heq
    · rename_i e' o heq; exact (hs.2 _ _ heq).trans (ih _ _ _)

theorem sendData_rcvSame (e : Ep) : RcvSame e (sendData e).1 := by
  have h := sendDataLoop_rcvSame (sendFuel e.snd + 1) e e.snd.writeNext []
  unfold sendData
  exact h

theorem closeIfDone_rcvSame (e : Ep) : RcvSame e (closeIfDone e) := by
  unfold closeIfDone; split <;> exact RcvSame.refl _

end Props.TcpLemmas
