import NetProto.Model.Waiter
/-!
# C17 — readiness notifications reach exactly the registered, interested waiters
Pointer-level proof: the intrusive doubly linked list of `pkg/ilist`, as used by `waiter.Queue`,
refines a plain list of entries.
-/
namespace C17
open Model.Waiter

/-- the links along `L` are consistent: each node's `prev` is its predecessor (or `p` for the first),
    each node's `next` its successor (or nil for the last) -/
def Chain (nodes : Nat → Node) : Option Nat → List Nat → Prop
  | _, [] => True
  | p, x :: rest => (nodes x).prev = p ∧ (nodes x).next = rest.head? ∧ Chain nodes (some x) rest

/-- the heap represents the list `L` -/
structure WF (q : Q) (L : List Nat) : Prop where
  nodup : L.Nodup
  head : q.head = L.head?
  tail : q.tail = L.getLast?
  chain : Chain q.nodes none L

theorem chain_congr (f g : Nat → Node) (p : Option Nat) (L : List Nat)
    (h : ∀ x ∈ L, (g x).prev = (f x).prev ∧ (g x).next = (f x).next) :
    Chain g p L ↔ Chain f p L := by
  induction L generalizing p with
  | nil => simp [Chain]
  | cons x t ih =>
    simp only [Chain]
    have hx := h x (by simp)
    rw [hx.1, hx.2, ih (some x) (fun y hy => h y (by simp [hy]))]

/-- traversal from the head visits exactly `L`, in order -/
theorem walk_chain (nodes : Nat → Node) (p : Option Nat) (L : List Nat) (fuel : Nat)
    (hc : Chain nodes p L) (hf : L.length ≤ fuel) : walk nodes fuel L.head? = L := by
  induction L generalizing p fuel with
  | nil => cases fuel <;> simp [walk]
  | cons x t ih =>
    cases fuel with
    | zero => simp at hf
    | succ n =>
      simp only [List.head?_cons, walk]
      obtain ⟨_, h2, h3⟩ := hc
      rw [h2, ih (some x) n h3 (by simpa using hf)]

/-! ## field-level description of the two pointer updates -/

def setNext (f : Nat → Node) (o : Option Nat) (v : Option Nat) : Nat → Node :=
  match o with
  | some x => upd f x { f x with next := v }
  | none => f

def setPrev (f : Nat → Node) (o : Option Nat) (v : Option Nat) : Nat → Node :=
  match o with
  | some x => upd f x { f x with prev := v }
  | none => f

theorem setNext_fields (f : Nat → Node) (o v : Option Nat) (x : Nat) :
    (setNext f o v x).next = (if o = some x then v else (f x).next) ∧ (setNext f o v x).prev = (f x).prev ∧
    (setNext f o v x).mask = (f x).mask := by
  cases o with
  | none => simp [setNext]
  | some y =>
    simp only [setNext, upd]
    by_cases h : x = y
    · subst h; simp
    · have : ¬ y = x := fun e => h e.symm
      simp [h, this]

theorem setPrev_fields (f : Nat → Node) (o v : Option Nat) (x : Nat) :
    (setPrev f o v x).prev = (if o = some x then v else (f x).prev) ∧ (setPrev f o v x).next = (f x).next ∧
    (setPrev f o v x).mask = (f x).mask := by
  cases o with
  | none => simp [setPrev]
  | some y =>
    simp only [setPrev, upd]
    by_cases h : x = y
    · subst h; simp
    · have : ¬ y = x := fun e => h e.symm
      simp [h, this]

/-- `unregister` in terms of the two updates -/
theorem unregister_eq (q : Q) (e : Nat) :
    (unregister q e).nodes = setPrev (setNext q.nodes (q.nodes e).prev (q.nodes e).next) (q.nodes e).next (q.nodes e).prev ∧
    (unregister q e).head = (match (q.nodes e).prev with | some _ => q.head | none => (q.nodes e).next) ∧
    (unregister q e).tail = (match (q.nodes e).next with | some _ => q.tail | none => (q.nodes e).prev) := by
  unfold unregister
  cases hp : (q.nodes e).prev <;> cases hn : (q.nodes e).next <;> simp [setNext, setPrev]

/-- last element of `A`, or `p` if `A` is empty -/
def lastOr (p : Option Nat) : List Nat → Option Nat
  | [] => p
  | a :: t => lastOr (some a) t

theorem lastOr_mem (p : Option Nat) (A : List Nat) (h : A ≠ []) : ∃ a ∈ A, lastOr p A = some a := by
  induction A generalizing p with
  | nil => exact absurd rfl h
  | cons a t ih =>
    cases t with
    | nil => exact ⟨a, by simp, rfl⟩
    | cons b r =>
      obtain ⟨c, hc, e⟩ := ih (some a) (by simp)
      exact ⟨c, by simp [hc], e⟩

theorem lastOr_none (A : List Nat) : lastOr none A = A.getLast? := by
  suffices h : ∀ p, lastOr p A = (A.getLast?).or p from by simpa using h none
  induction A with
  | nil => intro p; simp [lastOr]
  | cons a t ih =>
    intro p
    rw [lastOr, ih (some a)]
    cases t with
    | nil => simp
    | cons b r =>
      have : ∃ z, (b :: r).getLast? = some z := ⟨(b :: r).getLast (by simp), List.getLast?_eq_some_getLast (by simp)⟩
      obtain ⟨z, hz⟩ := this
      simp [List.getLast?_cons_cons, hz]

/-- the links of the removed entry are its neighbours in the list -/
theorem chain_split (nodes : Nat → Node) (p : Option Nat) (A B : List Nat) (e : Nat)
    (hc : Chain nodes p (A ++ e :: B)) :
    (nodes e).prev = lastOr p A ∧ (nodes e).next = B.head? := by
  induction A generalizing p with
  | nil => exact ⟨hc.1, hc.2.1⟩
  | cons a t ih => exact ih (some a) hc.2.2

/-- removing `e` re-links its neighbours: the chain over `A ++ B` -/
theorem rm_chain (nodes : Nat → Node) (p : Option Nat) (A B : List Nat) (e : Nat)
    (hnd : (A ++ e :: B).Nodup) (hout : ∀ pp, p = some pp → pp ∉ A ++ e :: B)
    (hc : Chain nodes p (A ++ e :: B)) :
    Chain (setPrev (setNext nodes (lastOr p A) B.head?) B.head? (lastOr p A)) p (A ++ B) := by
  induction A generalizing p with
  | nil =>
    simp only [List.nil_append, lastOr] at *
    obtain ⟨he1, he2, hrest⟩ := hc
    cases B with
    | nil => simp [Chain]
    | cons b B' =>
      obtain ⟨hb1, hb2, hB'⟩ := hrest
      have hnd' : e ≠ b ∧ e ∉ B' ∧ b ∉ B' ∧ B'.Nodup := by
        simp only [List.nodup_cons, List.mem_cons, not_or] at hnd
        exact ⟨hnd.1.1, hnd.1.2, hnd.2.1, hnd.2.2⟩
      have hpb : p ≠ some b := fun h => hout b h (by simp)
      refine ⟨?_, ?_, ?_⟩
      · rw [(setPrev_fields _ _ _ b).1]; simp
      · rw [(setPrev_fields _ _ _ b).2.1, (setNext_fields _ _ _ b).1]; simp [hpb, hb2]
      · rw [chain_congr nodes _ (some b) B']
        · exact hB'
        · intro x hx
          have hxb : ¬ (some b = some x) := by
            intro h; injection h with h; subst h; exact hnd'.2.2.1 hx
          have hpx : p ≠ some x := fun h => hout x h (by simp [hx])
          refine ⟨?_, ?_⟩
          · rw [(setPrev_fields _ _ _ x).1, (setNext_fields _ _ _ x).2.1]; simp [hxb]
          · rw [(setPrev_fields _ _ _ x).2.1, (setNext_fields _ _ _ x).1]; simp [hpx]
  | cons a A' ih =>
    simp only [List.cons_append] at hnd hc hout ⊢
    obtain ⟨ha1, ha2, hrest⟩ := hc
    have hnd2 : a ∉ A' ++ e :: B ∧ (A' ++ e :: B).Nodup := by simpa using hnd
    have hIH := ih (some a) hnd2.2 (fun pp hpp => by injection hpp with hpp; subst hpp; exact hnd2.1) hrest
    have haB : ¬ (B.head? = some a) := by
      intro h
      have : a ∈ B := List.mem_of_mem_head? h
      exact hnd2.1 (by simp [this])
    refine ⟨?_, ?_, hIH⟩
    · show (setPrev (setNext nodes (lastOr (some a) A') B.head?) B.head? (lastOr (some a) A') a).prev = p
      rw [(setPrev_fields _ _ _ a).1, (setNext_fields _ _ _ a).2.1]; simp [haB, ha1]
    · show (setPrev (setNext nodes (lastOr (some a) A') B.head?) B.head? (lastOr (some a) A') a).next = (A' ++ B).head?
      rw [(setPrev_fields _ _ _ a).2.1, (setNext_fields _ _ _ a).1]
      cases A' with
      | nil => simp [lastOr]
      | cons a' r =>
        obtain ⟨c, hc', ec⟩ := lastOr_mem (some a) (a' :: r) (by simp)
        have hca : ¬ (lastOr (some a) (a' :: r) = some a) := by
          rw [ec]; intro h; injection h with h; subst h
          apply hnd2.1
          simp only [List.cons_append, List.mem_cons, List.mem_append] at hc' ⊢
          rcases hc' with h | h
          · exact Or.inl h
          · exact Or.inr (Or.inl h)
        simp only [hca, if_false, ha2]
        simp

/-- **`Remove` of a linked entry**: the heap represents the list without it -/
theorem unregister_wf (q : Q) (L : List Nat) (e : Nat) (h : WF q L) (he : e ∈ L) :
    WF (unregister q e) (L.erase e) ∧ ∀ x, x ≠ e → ((unregister q e).nodes x).mask = (q.nodes x).mask := by
  obtain ⟨A, B, rfl, heA⟩ := List.eq_append_cons_of_mem he
  obtain ⟨hnd, hh, ht, hc⟩ := h
  obtain ⟨ep, en⟩ := chain_split q.nodes none A B e hc
  obtain ⟨un, uh, ut⟩ := unregister_eq q e
  have herase : (A ++ e :: B).erase e = A ++ B := by
    rw [List.erase_append_right _ heA]; simp
  rw [herase]
  refine ⟨⟨?_, ?_, ?_, ?_⟩, ?_⟩
  · have := hnd
    rw [List.nodup_append] at this ⊢
    obtain ⟨n1, n2, n3⟩ := this
    refine ⟨n1, (List.nodup_cons.mp n2).2, fun a ha b hb => n3 a ha b (by simp [hb])⟩
  · rw [uh, ep, en, lastOr_none]
    cases A with
    | nil => simp
    | cons a t =>
      have : ∃ z, (a :: t).getLast? = some z := ⟨(a :: t).getLast (by simp), List.getLast?_eq_some_getLast (by simp)⟩
      obtain ⟨z, hz⟩ := this
      simp [hz, hh]
  · rw [ut, ep, en, lastOr_none]
    cases B with
    | nil => simp
    | cons b t => simp [ht, List.getLast?_append]
  · rw [un, ep, en]
    exact rm_chain q.nodes none A B e hnd (fun pp hpp => by simp at hpp) hc
  · intro x _
    rw [un, (setPrev_fields _ _ _ x).2.2, (setNext_fields _ _ _ x).2.2]

/-- appending `e` behind a non-empty chain -/
theorem push_chain (nodes : Nat → Node) (p : Option Nat) (L : List Nat) (e : Nat) (en : Node)
    (hL : L ≠ []) (hnd : L.Nodup) (he : e ∉ L) (hc : Chain nodes p L) (t : Nat) (ht : L.getLast? = some t)
    (hen : en.prev = some t ∧ en.next = none) :
    Chain (upd (upd nodes e en) t { upd nodes e en t with next := some e }) p (L ++ [e]) := by
  induction L generalizing p with
  | nil => exact absurd rfl hL
  | cons x r ih =>
    obtain ⟨hx1, hx2, hr⟩ := hc
    have hxe : x ≠ e := fun h => he (by simp [h])
    cases r with
    | nil =>
      simp at ht; subst ht
      refine ⟨?_, ?_, ?_, ?_, trivial⟩
      · simp [upd, hxe, hx1]
      · simp [upd]
      · have : e ≠ x := fun h => hxe h.symm
        simp [upd, this, hen.1]
      · have : e ≠ x := fun h => hxe h.symm
        simp [upd, this, hen.2]
    | cons y r' =>
      have ht' : (y :: r').getLast? = some t := by simpa [List.getLast?_cons_cons] using ht
      have hnd' : x ∉ y :: r' ∧ (y :: r').Nodup := by simpa using hnd
      have htmem : t ∈ y :: r' := List.mem_of_getLast? ht'
      have hxt : x ≠ t := fun h => hnd'.1 (h ▸ htmem)
      refine ⟨?_, ?_, ?_⟩
      · simp [upd, hxe, hxt, hx1]
      · simp only [upd, hxe, hxt, if_false]; simpa using hx2
      · exact ih (some x) (by simp) hnd'.2 (fun h => he (by simp [h])) hr ht'

/-- **`PushBack` of an unlinked entry**: the heap represents the list with it appended -/
theorem register_wf (q : Q) (L : List Nat) (e mask : Nat) (h : WF q L) (he : e ∉ L) :
    WF (register q e mask) (L ++ [e]) ∧ ((register q e mask).nodes e).mask = mask ∧
    ∀ x, x ≠ e → ((register q e mask).nodes x).mask = (q.nodes x).mask := by
  obtain ⟨hnd, hh, ht, hc⟩ := h
  have hnd' : (L ++ [e]).Nodup := by
    rw [List.nodup_append]
    exact ⟨hnd, by simp, fun a ha b hb => by simp at hb; subst hb; exact fun h => he (h ▸ ha)⟩
  unfold register
  cases L with
  | nil =>
    simp only [List.getLast?_nil] at ht
    simp only [ht]
    refine ⟨⟨hnd', rfl, rfl, ?_⟩, by simp [upd], fun x hx => by simp [upd, hx]⟩
    simp [Chain, upd]
  | cons a r =>
    have : ∃ t, (a :: r).getLast? = some t := ⟨(a :: r).getLast (by simp), List.getLast?_eq_some_getLast (by simp)⟩
    obtain ⟨t, htl⟩ := this
    rw [htl] at ht
    simp only [ht]
    have hte : t ≠ e := fun h => he (h ▸ List.mem_of_getLast? htl)
    refine ⟨⟨hnd', ?_, ?_, ?_⟩, ?_, ?_⟩
    · simp [hh]
    · rw [List.getLast?_append]; simp
    · exact push_chain q.nodes none (a :: r) e _ (by simp) hnd he hc t htl ⟨rfl, rfl⟩
    · have : e ≠ t := fun h => hte h.symm
      simp [upd, this]
    · intro x hx
      by_cases hxt : x = t
      · subst hxt; simp [upd, hx]
      · simp [upd, hx, hxt]

/-! ## The queue against its abstract specification -/

/-- abstract state: the registered entries with their masks, in registration order -/
abbrev Abs := List (Nat × Nat)

structure Rep (q : Q) (A : Abs) : Prop where
  wf : WF q (A.map (·.1))
  masks : ∀ p ∈ A, (q.nodes p.1).mask = p.2

theorem rep_init : Rep {} [] := ⟨⟨by simp, rfl, rfl, trivial⟩, by simp⟩

theorem rep_register (q : Q) (A : Abs) (e m : Nat) (h : Rep q A) (he : e ∉ A.map (·.1)) :
    Rep (register q e m) (A ++ [(e, m)]) := by
  obtain ⟨w, hm, ho⟩ := register_wf q _ e m h.wf he
  refine ⟨by simpa using w, ?_⟩
  intro p hp
  simp only [List.mem_append, List.mem_singleton] at hp
  rcases hp with hp | rfl
  · have : p.1 ≠ e := fun heq => he (List.mem_map.mpr ⟨p, hp, heq⟩)
    rw [ho _ this]; exact h.masks p hp
  · exact hm

theorem rep_unregister (q : Q) (A : Abs) (e : Nat) (h : Rep q A) (he : e ∈ A.map (·.1)) :
    Rep (unregister q e) (A.filter (·.1 != e)) := by
  obtain ⟨w, ho⟩ := unregister_wf q _ e h.wf he
  have hnd := h.wf.nodup
  have hmap : (A.filter (·.1 != e)).map (·.1) = (A.map (·.1)).erase e := by
    rw [List.Nodup.erase_eq_filter hnd]
    induction A with
    | nil => rfl
    | cons a t ih =>
      have hnd' : (t.map (·.1)).Nodup := (List.nodup_cons.mp hnd).2
      by_cases h : a.1 = e
      · simp [List.filter_cons, h]
        have := ih_aux t e
        exact this
      · simp [List.filter_cons, h]
        exact ih_aux t e
  exact ⟨hmap ▸ w, fun p hp => by
    simp only [List.mem_filter, bne_iff_ne, ne_eq] at hp
    rw [ho _ hp.2]; exact h.masks p hp.1⟩
where
  ih_aux (t : Abs) (e : Nat) : (t.filter (·.1 != e)).map (·.1) = (t.map (·.1)).filter (· != e) := by
    induction t with
    | nil => rfl
    | cons a r ih =>
      by_cases h : a.1 = e <;> simp [List.filter_cons, h, ih]

/-- **`Notify`**: exactly the registered entries whose mask intersects are called back, each once,
    in registration order; no other entry is. -/
theorem notify_exact (q : Q) (A : Abs) (fuel mask : Nat) (h : Rep q A) (hf : A.length ≤ fuel) :
    (notify q fuel mask).2 = (A.filter fun p => mask &&& p.2 != 0).map (·.1) := by
  unfold notify toList
  simp only
  rw [h.wf.head, walk_chain q.nodes none _ fuel h.wf.chain (by simpa using hf)]
  have hm := h.masks
  clear h hf
  induction A with
  | nil => rfl
  | cons a t ih =>
    have h1 := hm a (by simp)
    simp only [List.map_cons, List.filter_cons, h1]
    split <;> simp [ih (fun p hp => hm p (by simp [hp]))]

/-- each entry is called back at most once per notification -/
theorem notify_nodup (q : Q) (A : Abs) (fuel mask : Nat) (h : Rep q A) (hf : A.length ≤ fuel) :
    (notify q fuel mask).2.Nodup := by
  rw [notify_exact q A fuel mask h hf]
  have := h.wf.nodup
  exact (List.Nodup.sublist (List.Sublist.map _ List.filter_sublist) this)

/-- an entry gets no callback after its unregistration has returned -/
theorem unregister_final (q : Q) (A : Abs) (e fuel mask : Nat) (h : Rep q A) (he : e ∈ A.map (·.1))
    (hf : A.length ≤ fuel) : e ∉ (notify (unregister q e) fuel mask).2 := by
  have h' := rep_unregister q A e h he
  rw [notify_exact _ _ fuel mask h' (Nat.le_trans (List.length_filter_le _ _) hf)]
  intro hmem
  simp only [List.mem_map, List.mem_filter] at hmem
  obtain ⟨p, ⟨⟨_, hp2⟩, _⟩, hp3⟩ := hmem
  simp [hp3] at hp2

inductive Op
  | reg (e m : Nat) | unreg (e : Nat)

/-- the API contract: register only an unregistered entry, unregister only a registered one -/
def Op.ok (A : Abs) : Op → Prop
  | .reg e _ => e ∉ A.map (·.1)
  | .unreg e => e ∈ A.map (·.1)

def stepQ (q : Q) : Op → Q
  | .reg e m => register q e m
  | .unreg e => unregister q e

def stepA (A : Abs) : Op → Abs
  | .reg e m => A ++ [(e, m)]
  | .unreg e => A.filter (·.1 != e)

/-- contract-respecting histories -/
def OkSeq : Abs → List Op → Prop
  | _, [] => True
  | A, op :: t => op.ok A ∧ OkSeq (stepA A op) t

/-- **Every history** of register/unregister (within the contract) keeps the pointer structure a
    faithful representation of the abstract list: registering or unregistering one entry never loses
    or duplicates another. -/
theorem refines (ops : List Op) (h : OkSeq [] ops) :
    Rep (ops.foldl stepQ {}) (ops.foldl stepA []) := by
  suffices hs : ∀ q A, Rep q A → OkSeq A ops → Rep (ops.foldl stepQ q) (ops.foldl stepA A) from
    hs {} [] rep_init h
  clear h
  induction ops with
  | nil => intro q A hr _; exact hr
  | cons op t ih =>
    intro q A hr hok
    simp only [List.foldl_cons]
    apply ih _ _ _ hok.2
    cases op with
    | reg e m => exact rep_register q A e m hr hok.1
    | unreg e => exact rep_unregister q A e hr hok.1

/-- channel entries: after a notification that reaches the entry its channel holds a token until
    the waiter takes it (further operations on the queue do not remove it) -/
theorem token_kept (q : Q) (fuel mask e : Nat) (h : e ∈ (notify q fuel mask).2) :
    ((notify q fuel mask).1.nodes e).token = true ∧
    ∀ e' m', e' ≠ e → ((register (notify q fuel mask).1 e' m').nodes e).token = true ∧
                      ((unregister (notify q fuel mask).1 e').nodes e).token = true := by
  have ht : ((notify q fuel mask).1.nodes e).token = true := by
    unfold notify at h ⊢
    simp only at h ⊢
    have : (List.filter (fun e => mask &&& (q.nodes e).mask != 0) (toList q fuel)).contains e = true := by
      simpa using h
    rw [if_pos this]
  refine ⟨ht, fun e' m' hne => ⟨?_, ?_⟩⟩
  · generalize (notify q fuel mask).1 = q' at ht ⊢
    have hne' : e ≠ e' := fun h => hne h.symm
    unfold register
    cases htl : q'.tail with
    | none => simp [upd, hne', ht]
    | some t =>
      by_cases het : e = t
      · subst het; simp [upd, hne', ht]
      · simp [upd, hne', het, ht]
  · generalize (notify q fuel mask).1 = q' at ht ⊢
    unfold unregister
    cases hp : (q'.nodes e').prev <;> cases hn : (q'.nodes e').next <;> simp [upd] <;>
      (repeat' split) <;> simp_all

/-- outside the contract the structure is corrupted (why the contract matters): removing an entry
    that was never linked empties a non-empty queue -/
theorem remove_unlinked_witness :
    let q := register (register {} 1 1) 2 1
    toList q 8 = [1, 2] ∧ toList (unregister q 3) 8 = [] := by decide

/-- non-vacuity -/
example : (notify (unregister (register (register (register {} 0 1) 1 2) 2 3) 1) 8 2).2 = [2] := by decide

end C17
