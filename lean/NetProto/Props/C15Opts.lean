import NetProto.Model.Header
import NetProto.Spec.Rfc
/-!
# C15 (continued) — TCP option parsers: in-bounds, total, and inverse to the encoders
-/
set_option maxRecDepth 10000
namespace C15
open Model.Header

theorem rd8_app (b j : List Nat) (i : Nat) (h : i < b.length) : rd8 (b ++ j) i = rd8 b i := by
  unfold rd8; simp [List.getD, List.getElem?_append_left h]
theorem rd16_app (b j : List Nat) (i : Nat) (h : i + 1 < b.length) : rd16 (b ++ j) i = rd16 b i := by
  unfold rd16; rw [rd8_app _ _ _ (by omega), rd8_app _ _ _ h]
theorem rd32_app (b j : List Nat) (i : Nat) (h : i + 3 < b.length) : rd32 (b ++ j) i = rd32 b i := by
  unfold rd32; rw [rd8_app _ _ _ (by omega), rd8_app _ _ _ (by omega), rd8_app _ _ _ (by omega), rd8_app _ _ _ h]

/-- **`ParseSynOptions` never reads outside its input**: whatever bytes follow the option
    area in memory (`j`), the result is the same.  (Totality is by construction: the model is a
    total function whose reads are exactly the Go reads, each guarded by the same test.) -/
theorem parseSyn_inbounds (b j : List Nat) (isAck : Bool) (fuel i : Nat) (so : SynOpts) :
    parseSynAux (b ++ j) b.length isAck fuel i so = parseSynAux b b.length isAck fuel i so := by
  induction fuel generalizing i so with
  | zero => simp [parseSynAux]
  | succ n ih =>
    unfold parseSynAux
    by_cases hi : i < b.length
    · simp only [hi, if_true]
      rw [rd8_app b j i hi]
      simp only [ih]
      grind [rd8_app, rd16_app, rd32_app]
    · simp [hi]

theorem readBlocks_app (b j : List Nat) (base n : Nat) (h : base + 8 * n ≤ b.length) :
    readBlocks (b ++ j) base n = readBlocks b base n := by
  induction n generalizing base with
  | zero => simp [readBlocks]
  | succ k ih =>
    unfold readBlocks
    rw [rd32_app _ _ _ (by omega), rd32_app _ _ _ (by omega), ih _ (by omega)]

/-- **`ParseTCPOptions` never reads outside its input.** -/
theorem parseTCP_inbounds (b j : List Nat) (fuel i : Nat) (o : TCPOpts) :
    parseTCPAux (b ++ j) b.length fuel i o = parseTCPAux b b.length fuel i o := by
  induction fuel generalizing i o with
  | zero => simp [parseTCPAux]
  | succ n ih =>
    unfold parseTCPAux
    by_cases hi : i < b.length
    · simp only [hi, if_true]
      rw [rd8_app b j i hi]
      simp only [ih]
      by_cases h2 : i + 2 > b.length
      · grind [rd8_app, rd16_app, rd32_app]
      · have h1 : rd8 (b ++ j) (i + 1) = rd8 b (i + 1) := rd8_app _ _ _ (by omega)
        rw [h1]
        by_cases hl : i + rd8 b (i + 1) > b.length
        · grind [rd8_app, rd16_app, rd32_app]
        · by_cases hl2 : rd8 b (i + 1) < 2
          · grind [rd8_app, rd16_app, rd32_app]
          · have hb : readBlocks (b ++ j) (i + 2) ((rd8 b (i + 1) - 2) / 8) = readBlocks b (i + 2) ((rd8 b (i + 1) - 2) / 8) :=
              readBlocks_app _ _ _ _ (by omega)
            rw [hb]
            grind [rd8_app, rd16_app, rd32_app]
    · simp [hi]

/-! ## Encoders are inverted by the parsers -/

theorem rd8_pre (pre l : List Nat) (k : Nat) : rd8 (pre ++ l) (pre.length + k) = rd8 l k := by
  unfold rd8; simp [List.getD, List.getElem?_append_right]
theorem rd16_pre (pre l : List Nat) (k : Nat) : rd16 (pre ++ l) (pre.length + k) = rd16 l k := by
  unfold rd16; rw [rd8_pre, show pre.length + k + 1 = pre.length + (k + 1) by omega, rd8_pre]
theorem rd32_pre (pre l : List Nat) (k : Nat) : rd32 (pre ++ l) (pre.length + k) = rd32 l k := by
  unfold rd32
  rw [rd8_pre, show pre.length + k + 1 = pre.length + (k + 1) by omega, rd8_pre,
    show pre.length + k + 2 = pre.length + (k + 2) by omega, rd8_pre,
    show pre.length + k + 3 = pre.length + (k + 3) by omega, rd8_pre]

/-- the options a SYN can carry, as the encoders of `protocol/header` write them -/
inductive SOpt
  | nop | mss (v : Nat) | ws (v : Nat) | ts (v e : Nat) | sackPerm
deriving Repr, DecidableEq

def SOpt.bytes : SOpt → List Nat
  | .nop => [1]
  | .mss v => [2, 4, v / 256 % 256, v % 256]
  | .ws v => [3, 3, v % 256]
  | .ts v e => [8, 10] ++ be32 v ++ be32 e
  | .sackPerm => [4, 2]

/-- well-formedness: what the encoders can be given (MSS 0 is not a valid MSS) -/
def SOpt.ok : SOpt → Prop
  | .nop => True
  | .mss v => 0 < v ∧ v < 65536
  | .ws v => v < 256
  | .ts v e => v < 4294967296 ∧ e < 4294967296
  | .sackPerm => True

def SOpt.apply (isAck : Bool) (so : SynOpts) : SOpt → SynOpts
  | .nop => so
  | .mss v => { so with mss := v }
  | .ws v => { so with ws := if v > 14 then 14 else v }
  | .ts v e => { so with ts := true, tsVal := v, tsEcr := if isAck then e else so.tsEcr }
  | .sackPerm => { so with sackPermitted := true }

/-- the encoders write exactly these bytes -/
theorem encoders_write (v e : Nat) (buf : List Nat) (h : 10 ≤ buf.length) :
    (encodeMSS v buf).1.take 4 = (SOpt.mss v).bytes ∧ (encodeMSS v buf).2 = 4 ∧
    (encodeWS v buf).1.take 3 = (SOpt.ws v).bytes ∧ (encodeWS v buf).2 = 3 ∧
    (encodeTS v e buf).1.take 10 = (SOpt.ts v e).bytes ∧ (encodeTS v e buf).2 = 10 ∧
    (encodeSACKPermitted buf).1.take 2 = SOpt.sackPerm.bytes ∧ (encodeSACKPermitted buf).2 = 2 := by
  have h4 : ¬ buf.length < 4 := by omega
  have h3 : ¬ buf.length < 3 := by omega
  have h10 : ¬ buf.length < 10 := by omega
  have h2 : ¬ buf.length < 2 := by omega
  simp [encodeMSS, encodeWS, encodeTS, encodeSACKPermitted, h4, h3, h10, h2, setAt, SOpt.bytes, be32]
  have tk : ∀ l : List Nat, l.length ≤ 10 → l.take buf.length = l :=
    fun l hl => List.take_of_length_le (by omega)
  rw [tk _ (by simp), tk _ (by simp), tk _ (by simp), tk _ (by simp)]
  simp

/-! one-iteration lemmas: what the loop does on each option kind, given the bytes it reads -/

theorem step_nop (all : List Nat) (limit p n : Nat) (so : SynOpts) (isAck : Bool)
    (h0 : rd8 all p = 1) (hl : p + 1 ≤ limit) :
    parseSynAux all limit isAck (n + 1) p so = parseSynAux all limit isAck n (p + 1) so := by
  rw [parseSynAux]; grind

theorem step_mss (all : List Nat) (limit p n v : Nat) (so : SynOpts) (isAck : Bool)
    (h0 : rd8 all p = 2) (h1 : rd8 all (p + 1) = 4) (h16 : rd16 all (p + 2) = v) (hv : v ≠ 0)
    (hl : p + 4 ≤ limit) :
    parseSynAux all limit isAck (n + 1) p so = parseSynAux all limit isAck n (p + 4) { so with mss := v } := by
  rw [parseSynAux]; grind

theorem step_ws (all : List Nat) (limit p n v : Nat) (so : SynOpts) (isAck : Bool)
    (h0 : rd8 all p = 3) (h1 : rd8 all (p + 1) = 3) (h2 : rd8 all (p + 2) = v) (hl : p + 3 ≤ limit) :
    parseSynAux all limit isAck (n + 1) p so =
      parseSynAux all limit isAck n (p + 3) { so with ws := if v > 14 then 14 else v } := by
  rw [parseSynAux]; grind

theorem step_ts (all : List Nat) (limit p n v e : Nat) (so : SynOpts) (isAck : Bool)
    (h0 : rd8 all p = 8) (h1 : rd8 all (p + 1) = 10) (h2 : rd32 all (p + 2) = v) (h6 : rd32 all (p + 6) = e)
    (hl : p + 10 ≤ limit) :
    parseSynAux all limit isAck (n + 1) p so =
      parseSynAux all limit isAck n (p + 10)
        { so with ts := true, tsVal := v, tsEcr := if isAck then e else so.tsEcr } := by
  rw [parseSynAux]; cases isAck <;> grind

theorem step_sackPerm (all : List Nat) (limit p n : Nat) (so : SynOpts) (isAck : Bool)
    (h0 : rd8 all p = 4) (h1 : rd8 all (p + 1) = 2) (hl : p + 2 ≤ limit) :
    parseSynAux all limit isAck (n + 1) p so =
      parseSynAux all limit isAck n (p + 2) { so with sackPermitted := true } := by
  rw [parseSynAux]; grind

theorem step_end (all : List Nat) (limit p n : Nat) (so : SynOpts) (isAck : Bool) (hl : limit ≤ p) :
    parseSynAux all limit isAck (n + 1) p so = so := by
  rw [parseSynAux]; grind

/-- **Parsers recover every option the encoders produced** (any sequence, any values in range). -/
theorem parseSyn_encode_aux (os : List SOpt) (hok : ∀ o ∈ os, o.ok) (isAck : Bool) (pre : List Nat)
    (fuel : Nat) (hf : os.length < fuel) (so : SynOpts) :
    parseSynAux (pre ++ os.flatMap SOpt.bytes) (pre ++ os.flatMap SOpt.bytes).length isAck fuel pre.length so
      = os.foldl (SOpt.apply isAck) so := by
  induction os generalizing pre fuel so with
  | nil =>
    cases fuel with
    | zero => simp at hf
    | succ n => exact step_end _ _ _ _ _ _ (by simp)
  | cons o t ih =>
    cases fuel with
    | zero => simp at hf
    | succ n =>
      have hn : t.length < n := by simpa using hf
      have hot := hok o (by simp)
      have htl : ∀ o ∈ t, o.ok := fun x hx => hok x (by simp [hx])
      simp only [List.flatMap_cons, List.foldl_cons]
      generalize hrest : t.flatMap SOpt.bytes = rest at *
      have key : ∀ so', parseSynAux (pre ++ (o.bytes ++ rest))
            (pre ++ (o.bytes ++ rest)).length isAck n (pre.length + o.bytes.length) so'
          = t.foldl (SOpt.apply isAck) so' := by
        intro so'
        have := ih htl (pre ++ o.bytes) n hn so'
        simpa [List.append_assoc] using this
      have hlim : (pre ++ (o.bytes ++ rest)).length = pre.length + o.bytes.length + rest.length := by
        simp; omega
      have r0 := rd8_pre pre (o.bytes ++ rest) 0
      have r1 := rd8_pre pre (o.bytes ++ rest) 1
      have r2 := rd8_pre pre (o.bytes ++ rest) 2
      have r16 := rd16_pre pre (o.bytes ++ rest) 2
      have r32a := rd32_pre pre (o.bytes ++ rest) 2
      have r32b := rd32_pre pre (o.bytes ++ rest) 6
      simp only [Nat.add_zero] at r0
      cases o with
      | nop =>
        rw [step_nop _ _ _ _ _ _ (by rw [r0]; rfl) (by rw [hlim]; simp [SOpt.bytes])]
        exact key so
      | mss v =>
        obtain ⟨hv0, hv1⟩ := hot
        have e16 : rd16 ((SOpt.mss v).bytes ++ rest) 2 = v := by
          simp [SOpt.bytes, rd16, rd8]; omega
        rw [step_mss _ _ _ _ v _ _ (by rw [r0]; rfl) (by rw [r1]; rfl) (by rw [r16, e16]) (by omega)
          (by rw [hlim]; simp [SOpt.bytes])]
        exact key _
      | ws v =>
        have hv : v < 256 := hot
        have e2 : rd8 ((SOpt.ws v).bytes ++ rest) 2 = v := by
          simp [SOpt.bytes, rd8]; omega
        rw [step_ws _ _ _ _ v _ _ (by rw [r0]; rfl) (by rw [r1]; rfl) (by rw [r2, e2])
          (by rw [hlim]; simp [SOpt.bytes])]
        exact key _
      | ts v e =>
        obtain ⟨hv, he⟩ := hot
        have e1 : rd32 ((SOpt.ts v e).bytes ++ rest) 2 = v := by
          simp [SOpt.bytes, be32, rd32, rd8]; omega
        have e2 : rd32 ((SOpt.ts v e).bytes ++ rest) 6 = e := by
          simp [SOpt.bytes, be32, rd32, rd8]; omega
        rw [step_ts _ _ _ _ v e _ _ (by rw [r0]; rfl) (by rw [r1]; rfl) (by rw [r32a, e1]) (by rw [r32b, e2])
          (by rw [hlim]; simp [SOpt.bytes, be32])]
        exact key _
      | sackPerm =>
        rw [step_sackPerm _ _ _ _ _ _ (by rw [r0]; rfl) (by rw [r1]; rfl) (by rw [hlim]; simp [SOpt.bytes])]
        exact key _

theorem parseSyn_encode (os : List SOpt) (hok : ∀ o ∈ os, o.ok) (isAck : Bool) :
    parseSynOptions (os.flatMap SOpt.bytes) isAck = os.foldl (SOpt.apply isAck) {} := by
  unfold parseSynOptions
  have hlen : os.length < (os.flatMap SOpt.bytes).length + 1 := by
    have : os.length ≤ (os.flatMap SOpt.bytes).length := by
      induction os with
      | nil => simp
      | cons o t ih =>
        have := ih (fun x hx => hok x (by simp [hx]))
        have : 1 ≤ o.bytes.length := by cases o <;> simp [SOpt.bytes, be32]
        simp only [List.flatMap_cons, List.length_append, List.length_cons]
        omega
    omega
  have := parseSyn_encode_aux os hok isAck [] _ hlen {}
  simpa using this

/-- non-vacuity / worked instance: the SYN-ACK option block MSS, SACK-permitted, TS, NOP, WS -/
example : parseSynOptions ([SOpt.mss 1460, .sackPerm, .ts 7 9, .nop, .ws 7].flatMap SOpt.bytes) true =
    { mss := 1460, ws := 7, ts := true, tsVal := 7, tsEcr := 9, sackPermitted := true } := by decide

/-! ### per-segment options: timestamps and SACK blocks -/

inductive TOpt
  | nop | ts (v e : Nat) | sack (blocks : List (Nat × Nat))
deriving Repr, DecidableEq

def TOpt.bytes : TOpt → List Nat
  | .nop => [1]
  | .ts v e => [8, 10] ++ be32 v ++ be32 e
  | .sack bl => [5, bl.length * 8 + 2] ++ blocksBytes bl

def TOpt.ok : TOpt → Prop
  | .nop => True
  | .ts v e => v < 4294967296 ∧ e < 4294967296
  | .sack bl => 1 ≤ bl.length ∧ bl.length ≤ 4 ∧ ∀ x ∈ bl, x.1 < 4294967296 ∧ x.2 < 4294967296

def TOpt.apply (o : TCPOpts) : TOpt → TCPOpts
  | .nop => o
  | .ts v e => { o with ts := true, tsVal := v, tsEcr := e }
  | .sack bl => { o with sack := some bl }

/-- `EncodeSACKBlocks` writes exactly `TOpt.sack` for up to four blocks when the buffer is large enough -/
theorem encodeSACK_writes (bl : List (Nat × Nat)) (buf : List Nat) (h1 : 1 ≤ bl.length) (h4 : bl.length ≤ 4)
    (hb : 34 ≤ buf.length) :
    (encodeSACKBlocks bl buf).2 = bl.length * 8 + 2 ∧
    (encodeSACKBlocks bl buf).1.take (bl.length * 8 + 2) = (TOpt.sack bl).bytes := by
  have hbb : ∀ l : List (Nat × Nat), (blocksBytes l).length = l.length * 8 := by
    intro l; induction l with
    | nil => simp [blocksBytes]
    | cons x t ih => obtain ⟨a, b⟩ := x; simp [blocksBytes, be32, ih]; omega
  have e0 : ¬ bl.length = 0 := by omega
  have emin : min bl.length 4 = bl.length := by omega
  have ell : ¬ (buf.length - 2) / 8 < bl.length := by omega
  have hmod : (bl.length * 8 + 2) % 256 = bl.length * 8 + 2 := by omega
  have hres : encodeSACKBlocks bl buf = (setAt buf 0 ([5, bl.length * 8 + 2] ++ blocksBytes bl), bl.length * 8 + 2) := by
    unfold encodeSACKBlocks
    simp only [e0, if_false, emin, ell, hmod, List.take_length]
  rw [hres]
  refine ⟨rfl, ?_⟩
  unfold TOpt.bytes
  generalize hX : [5, bl.length * 8 + 2] ++ blocksBytes bl = X at *
  have hXl : X.length = bl.length * 8 + 2 := by rw [← hX]; simp [hbb]
  simp only [setAt, List.take_zero, List.nil_append, Nat.sub_zero, Nat.zero_add]
  rw [List.take_of_length_le (by omega : X.length ≤ buf.length)]
  have : (X ++ List.drop X.length buf).take (bl.length * 8 + 2) = X := by rw [← hXl]; simp
  rw [this, ← hX]

theorem readBlocks_bytes (pre rest : List Nat) (bl : List (Nat × Nat))
    (h : ∀ x ∈ bl, x.1 < 4294967296 ∧ x.2 < 4294967296) :
    readBlocks (pre ++ (blocksBytes bl ++ rest)) pre.length bl.length = bl := by
  induction bl generalizing pre with
  | nil => simp [readBlocks]
  | cons x t ih =>
    obtain ⟨a, b⟩ := x
    have hx := h (a, b) (by simp)
    simp only [List.length_cons, readBlocks, blocksBytes]
    have r1 := rd32_pre pre (be32 a ++ be32 b ++ blocksBytes t ++ rest) 0
    have r2 := rd32_pre pre (be32 a ++ be32 b ++ blocksBytes t ++ rest) 4
    have e1 : rd32 (be32 a ++ be32 b ++ blocksBytes t ++ rest) 0 = a := by
      simp [be32, rd32, rd8]; omega
    have e2 : rd32 (be32 a ++ be32 b ++ blocksBytes t ++ rest) 4 = b := by
      simp [be32, rd32, rd8]; omega
    simp only [Nat.add_zero] at r1
    have hpre : pre ++ (be32 a ++ be32 b ++ blocksBytes t ++ rest) = pre ++ (be32 a ++ be32 b ++ blocksBytes t ++ rest) := rfl
    have := ih (pre ++ (be32 a ++ be32 b)) (fun y hy => h y (by simp [hy]))
    have hl : (pre ++ (be32 a ++ be32 b)).length = pre.length + 8 := by simp [be32]
    rw [hl] at this
    simp only [List.append_assoc] at this r1 r2 e1 e2 ⊢
    rw [r1, e1, r2, e2, this]

theorem tstep_nop (all : List Nat) (limit p n : Nat) (o : TCPOpts)
    (h0 : rd8 all p = 1) (hl : p + 1 ≤ limit) :
    parseTCPAux all limit (n + 1) p o = parseTCPAux all limit n (p + 1) o := by
  rw [parseTCPAux]; grind

theorem tstep_ts (all : List Nat) (limit p n v e : Nat) (o : TCPOpts)
    (h0 : rd8 all p = 8) (h1 : rd8 all (p + 1) = 10) (h2 : rd32 all (p + 2) = v) (h6 : rd32 all (p + 6) = e)
    (hl : p + 10 ≤ limit) :
    parseTCPAux all limit (n + 1) p o =
      parseTCPAux all limit n (p + 10) { o with ts := true, tsVal := v, tsEcr := e } := by
  rw [parseTCPAux]; grind

theorem tstep_sack (all : List Nat) (limit p n k : Nat) (bl : List (Nat × Nat)) (o : TCPOpts)
    (h0 : rd8 all p = 5) (h1 : rd8 all (p + 1) = k * 8 + 2) (hb : readBlocks all (p + 2) k = bl)
    (hl : p + (k * 8 + 2) ≤ limit) :
    parseTCPAux all limit (n + 1) p o =
      parseTCPAux all limit n (p + (k * 8 + 2)) { o with sack := some bl } := by
  rw [parseTCPAux]
  have e1 : (k * 8 + 2 - 2) / 8 = k := by omega
  have e2 : (k * 8 + 2 - 2) % 8 = 0 := by omega
  simp only [h0, h1, e1, e2, hb]
  grind

theorem tstep_end (all : List Nat) (limit p n : Nat) (o : TCPOpts) (hl : limit ≤ p) :
    parseTCPAux all limit (n + 1) p o = o := by
  rw [parseTCPAux]; grind

theorem blocksBytes_length (l : List (Nat × Nat)) : (blocksBytes l).length = l.length * 8 := by
  induction l with
  | nil => simp [blocksBytes]
  | cons x t ih => obtain ⟨a, b⟩ := x; simp [blocksBytes, be32, ih]; omega

theorem parseTCP_encode_aux (os : List TOpt) (hok : ∀ o ∈ os, o.ok) (pre : List Nat)
    (fuel : Nat) (hf : os.length < fuel) (o : TCPOpts) :
    parseTCPAux (pre ++ os.flatMap TOpt.bytes) (pre ++ os.flatMap TOpt.bytes).length fuel pre.length o
      = os.foldl TOpt.apply o := by
  induction os generalizing pre fuel o with
  | nil =>
    cases fuel with
    | zero => simp at hf
    | succ n => exact tstep_end _ _ _ _ _ (by simp)
  | cons x t ih =>
    cases fuel with
    | zero => simp at hf
    | succ n =>
      have hn : t.length < n := by simpa using hf
      have hot := hok x (by simp)
      have htl : ∀ o ∈ t, o.ok := fun y hy => hok y (by simp [hy])
      simp only [List.flatMap_cons, List.foldl_cons]
      generalize hrest : t.flatMap TOpt.bytes = rest at *
      have key : ∀ o', parseTCPAux (pre ++ (x.bytes ++ rest))
            (pre ++ (x.bytes ++ rest)).length n (pre.length + x.bytes.length) o'
          = t.foldl TOpt.apply o' := by
        intro o'
        have := ih htl (pre ++ x.bytes) n hn o'
        simpa [List.append_assoc] using this
      have hlim : (pre ++ (x.bytes ++ rest)).length = pre.length + x.bytes.length + rest.length := by
        simp; omega
      have r0 := rd8_pre pre (x.bytes ++ rest) 0
      have r1 := rd8_pre pre (x.bytes ++ rest) 1
      have r32a := rd32_pre pre (x.bytes ++ rest) 2
      have r32b := rd32_pre pre (x.bytes ++ rest) 6
      simp only [Nat.add_zero] at r0
      cases x with
      | nop =>
        rw [tstep_nop _ _ _ _ _ (by rw [r0]; rfl) (by rw [hlim]; simp [TOpt.bytes])]
        exact key o
      | ts v e =>
        obtain ⟨hv, he⟩ := hot
        have e1 : rd32 ((TOpt.ts v e).bytes ++ rest) 2 = v := by
          simp [TOpt.bytes, be32, rd32, rd8]; omega
        have e2 : rd32 ((TOpt.ts v e).bytes ++ rest) 6 = e := by
          simp [TOpt.bytes, be32, rd32, rd8]; omega
        rw [tstep_ts _ _ _ _ v e _ (by rw [r0]; rfl) (by rw [r1]; rfl) (by rw [r32a, e1]) (by rw [r32b, e2])
          (by rw [hlim]; simp [TOpt.bytes, be32])]
        exact key _
      | sack bl =>
        obtain ⟨h1, h4, hbl⟩ := hot
        have hbytes : (TOpt.sack bl).bytes.length = bl.length * 8 + 2 := by
          simp [TOpt.bytes, blocksBytes_length]
        have hrb : readBlocks (pre ++ ((TOpt.sack bl).bytes ++ rest)) (pre.length + 2) bl.length = bl := by
          have := readBlocks_bytes (pre ++ [5, bl.length * 8 + 2]) rest bl hbl
          simpa [TOpt.bytes, List.append_assoc] using this
        rw [tstep_sack _ _ _ _ bl.length bl _ (by rw [r0]; rfl) (by rw [r1]; rfl) hrb
          (by rw [hlim, hbytes]; omega)]
        rw [← hbytes]
        exact key _

/-- **`ParseTCPOptions` recovers timestamps and every SACK block `EncodeSACKBlocks` wrote.** -/
theorem parseTCP_encode (os : List TOpt) (hok : ∀ o ∈ os, o.ok) :
    parseTCPOptions (os.flatMap TOpt.bytes) = os.foldl TOpt.apply {} := by
  unfold parseTCPOptions
  have hlen : os.length < (os.flatMap TOpt.bytes).length + 1 := by
    have : os.length ≤ (os.flatMap TOpt.bytes).length := by
      induction os with
      | nil => simp
      | cons o t ih =>
        have := ih (fun x hx => hok x (by simp [hx]))
        have : 1 ≤ o.bytes.length := by cases o <;> simp [TOpt.bytes, be32]
        simp only [List.flatMap_cons, List.length_append, List.length_cons]
        omega
    omega
  have := parseTCP_encode_aux os hok [] _ hlen {}
  simpa using this

example : parseTCPOptions ([TOpt.nop, .nop, .ts 5 6, .nop, .nop, .sack [(100, 200), (4294967295, 3)]].flatMap TOpt.bytes) =
    { ts := true, tsVal := 5, tsEcr := 6, sack := some [(100, 200), (4294967295, 3)] } := by decide

theorem padding_aligned (off : Nat) : (off + padCount off) % 4 = 0 ∧ padCount off < 4 := by
  unfold padCount; omega

end C15
