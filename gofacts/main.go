// gofacts: regenerate Lean definitions from /repo's current Go source.
//
//	gofacts gen <repo> <outdir>
//
// Three extractors, all deliberately small:
//
//  1. funcs  — loop-free integer functions (if/return/:=/op=) are translated
//     to Lean over BitVec n with Go's wrap-around semantics.
//  2. exprs  — a single named assignment inside a function is translated as a
//     function of its free variables (used for arithmetic buried in loops).
//  3. consts — named constants / package vars with literal initialisers,
//     and a few structural facts (channel capacities, atomic-operation
//     sequences of pkg/tmutex and pkg/sleep).
//
// Anything outside the supported subset is a hard error: the caller treats
// that as a broken obligation, never as silence.
package main

import (
	"bytes"
	"fmt"
	"go/ast"
	"go/constant"
	"go/importer"
	"go/parser"
	"go/printer"
	"go/scanner"
	"go/token"
	"go/types"
	"os"
	"path/filepath"
	"regexp"
	"sort"
	"strings"
)

type pkgInfo struct {
	fset  *token.FileSet
	files []*ast.File
	info  *types.Info
	pkg   *types.Package
}

type fakeImporter struct{ def types.Importer }

func (f fakeImporter) Import(path string) (*types.Package, error) {
	if p, err := f.def.Import(path); err == nil {
		return p, nil
	}
	// unknown (module-internal) import: empty package; errors are swallowed
	parts := strings.Split(path, "/")
	p := types.NewPackage(path, parts[len(parts)-1])
	p.MarkComplete()
	return p, nil
}

func loadPkg(dir string) (*pkgInfo, error) {
	fset := token.NewFileSet()
	ents, err := os.ReadDir(dir)
	if err != nil {
		return nil, err
	}
	var files []*ast.File
	for _, e := range ents {
		n := e.Name()
		if !strings.HasSuffix(n, ".go") || strings.HasSuffix(n, "_test.go") {
			continue
		}
		src, err := os.ReadFile(filepath.Join(dir, n))
		if err != nil {
			return nil, err
		}
		// skip verif-only files: the model is of the untagged source plus hooks
		// that are no-ops; tagged files would duplicate symbols.
		head := string(src)
		if i := strings.Index(head, "\npackage "); i >= 0 {
			head = head[:i]
		}
		if strings.Contains(head, "+build verif") || strings.Contains(head, "go:build verif") {
			continue
		}
		if strings.Contains(head, "+build ignore") {
			continue
		}
		f, err := parser.ParseFile(fset, filepath.Join(dir, n), src, parser.ParseComments)
		if err != nil {
			return nil, err
		}
		files = append(files, f)
	}
	if len(files) == 0 {
		return nil, fmt.Errorf("no go files in %s", dir)
	}
	// keep only the majority package name (dirs with main + lib mixes)
	info := &types.Info{
		Types: map[ast.Expr]types.TypeAndValue{},
		Defs:  map[*ast.Ident]types.Object{},
		Uses:  map[*ast.Ident]types.Object{},
	}
	conf := types.Config{
		Importer:                 fakeImporter{importer.Default()},
		Error:                    func(error) {},
		DisableUnusedImportCheck: true,
		FakeImportC:              true,
	}
	pkg, _ := conf.Check(files[0].Name.Name, fset, files, info)
	return &pkgInfo{fset, files, info, pkg}, nil
}

func (p *pkgInfo) findFunc(recv, name string) *ast.FuncDecl {
	for _, f := range p.files {
		for _, d := range f.Decls {
			fd, ok := d.(*ast.FuncDecl)
			if !ok || fd.Name.Name != name {
				continue
			}
			r := ""
			if fd.Recv != nil && len(fd.Recv.List) == 1 {
				t := fd.Recv.List[0].Type
				if s, ok := t.(*ast.StarExpr); ok {
					t = s.X
				}
				if id, ok := t.(*ast.Ident); ok {
					r = id.Name
				}
			}
			if r == recv {
				return fd
			}
		}
	}
	return nil
}

// ---------------------------------------------------------------------------
// integer subset translator

type ity struct {
	w      int
	signed bool
	isBool bool
}

func (t ity) lean() string {
	if t.isBool {
		return "Bool"
	}
	return fmt.Sprintf("BitVec %d", t.w)
}

func basicTy(t types.Type) (ity, error) {
	if p, ok := t.(*types.Pointer); ok {
		t = p.Elem()
	}
	b, ok := t.Underlying().(*types.Basic)
	if !ok {
		return ity{}, fmt.Errorf("unsupported type %s", t)
	}
	switch b.Kind() {
	case types.Bool, types.UntypedBool:
		return ity{isBool: true}, nil
	case types.Uint8:
		return ity{w: 8}, nil
	case types.Uint16:
		return ity{w: 16}, nil
	case types.Uint32:
		return ity{w: 32}, nil
	case types.Uint64, types.Uint, types.Uintptr:
		return ity{w: 64}, nil
	case types.Int8:
		return ity{w: 8, signed: true}, nil
	case types.Int16:
		return ity{w: 16, signed: true}, nil
	case types.Int32:
		return ity{w: 32, signed: true}, nil
	case types.Int64, types.Int, types.UntypedInt:
		return ity{w: 64, signed: true}, nil
	}
	return ity{}, fmt.Errorf("unsupported basic type %s", t)
}

type tr struct {
	p      *pkgInfo
	ns     string            // lean namespace
	known  map[string]string // go func key -> lean name
	locals map[string]ity    // for expr mode: free vars
	free   []string
}

func litBV(v constant.Value, t ity) (string, error) {
	if t.isBool {
		if constant.BoolVal(v) {
			return "true", nil
		}
		return "false", nil
	}
	iv := constant.ToInt(v)
	if iv.Kind() != constant.Int {
		return "", fmt.Errorf("non-integer constant %s", v)
	}
	s := iv.ExactString()
	if strings.HasPrefix(s, "-") {
		return fmt.Sprintf("(BitVec.ofInt %d (%s))", t.w, s), nil
	}
	return fmt.Sprintf("%s#%d", s, t.w), nil
}

func (x *tr) typeOf(e ast.Expr) (ity, error) {
	tv, ok := x.p.info.Types[e]
	if !ok || tv.Type == nil {
		return ity{}, fmt.Errorf("no type for %s", x.src(e))
	}
	return basicTy(tv.Type)
}

func (x *tr) src(n ast.Node) string {
	var b bytes.Buffer
	fmt.Fprintf(&b, "%s", x.p.fset.Position(n.Pos()))
	return b.String()
}

func (x *tr) expr(e ast.Expr) (string, error) {
	tv := x.p.info.Types[e]
	if tv.Value != nil {
		t, err := basicTy(tv.Type)
		if err != nil {
			return "", err
		}
		return litBV(tv.Value, t)
	}
	switch e := e.(type) {
	case *ast.ParenExpr:
		return x.expr(e.X)
	case *ast.Ident:
		if e.Name == "true" || e.Name == "false" {
			return e.Name, nil
		}
		if x.locals != nil {
			if _, ok := x.locals[e.Name]; !ok {
				t, err := x.typeOf(e)
				if err != nil {
					return "", err
				}
				x.locals[e.Name] = t
				x.free = append(x.free, e.Name)
			}
		}
		return leanIdent(e.Name), nil
	case *ast.StarExpr:
		return x.expr(e.X)
	case *ast.UnaryExpr:
		a, err := x.expr(e.X)
		if err != nil {
			return "", err
		}
		switch e.Op {
		case token.NOT:
			return "(!" + a + ")", nil
		case token.SUB:
			return "(-" + a + ")", nil
		case token.XOR:
			return "(~~~" + a + ")", nil
		}
		return "", fmt.Errorf("%s: unsupported unary %s", x.src(e), e.Op)
	case *ast.BinaryExpr:
		return x.binary(e)
	case *ast.CallExpr:
		return x.call(e)
	}
	return "", fmt.Errorf("%s: unsupported expression %T", x.src(e), e)
}

func (x *tr) binary(e *ast.BinaryExpr) (string, error) {
	a, err := x.expr(e.X)
	if err != nil {
		return "", err
	}
	b, err := x.expr(e.Y)
	if err != nil {
		return "", err
	}
	lt, err := x.typeOf(e.X)
	if err != nil {
		return "", err
	}
	switch e.Op {
	case token.LAND:
		return "(" + a + " && " + b + ")", nil
	case token.LOR:
		return "(" + a + " || " + b + ")", nil
	case token.EQL:
		return "(" + a + " == " + b + ")", nil
	case token.NEQ:
		return "(" + a + " != " + b + ")", nil
	}
	if lt.isBool {
		return "", fmt.Errorf("%s: unsupported bool op %s", x.src(e), e.Op)
	}
	cmp := func(u, s string, swap bool) string {
		f := u
		if lt.signed {
			f = s
		}
		if swap {
			return "(BitVec." + f + " " + b + " " + a + ")"
		}
		return "(BitVec." + f + " " + a + " " + b + ")"
	}
	switch e.Op {
	case token.LSS:
		return cmp("ult", "slt", false), nil
	case token.LEQ:
		return cmp("ule", "sle", false), nil
	case token.GTR:
		return cmp("ult", "slt", true), nil
	case token.GEQ:
		return cmp("ule", "sle", true), nil
	case token.ADD:
		return "(" + a + " + " + b + ")", nil
	case token.SUB:
		return "(" + a + " - " + b + ")", nil
	case token.MUL:
		return "(" + a + " * " + b + ")", nil
	case token.QUO:
		if lt.signed {
			return "(BitVec.sdiv " + a + " " + b + ")", nil
		}
		return "(" + a + " / " + b + ")", nil
	case token.REM:
		if lt.signed {
			return "(BitVec.srem " + a + " " + b + ")", nil
		}
		return "(" + a + " % " + b + ")", nil
	case token.AND:
		return "(" + a + " &&& " + b + ")", nil
	case token.OR:
		return "(" + a + " ||| " + b + ")", nil
	case token.XOR:
		return "(" + a + " ^^^ " + b + ")", nil
	case token.AND_NOT:
		return "(" + a + " &&& ~~~" + b + ")", nil
	case token.SHL:
		return "(" + a + " <<< (" + b + ").toNat)", nil
	case token.SHR:
		if lt.signed {
			return "(BitVec.sshiftRight " + a + " (" + b + ").toNat)", nil
		}
		return "(" + a + " >>> (" + b + ").toNat)", nil
	}
	return "", fmt.Errorf("%s: unsupported binary %s", x.src(e), e.Op)
}

func (x *tr) call(e *ast.CallExpr) (string, error) {
	// conversion?
	if tv, ok := x.p.info.Types[e.Fun]; ok && tv.IsType() {
		if len(e.Args) != 1 {
			return "", fmt.Errorf("%s: bad conversion", x.src(e))
		}
		to, err := basicTy(tv.Type)
		if err != nil {
			return "", err
		}
		from, err := x.typeOf(e.Args[0])
		if err != nil {
			return "", err
		}
		a, err := x.expr(e.Args[0])
		if err != nil {
			return "", err
		}
		if to.isBool || from.isBool {
			return "", fmt.Errorf("%s: bool conversion", x.src(e))
		}
		if to.w == from.w {
			return a, nil
		}
		if from.signed {
			return fmt.Sprintf("(BitVec.signExtend %d %s)", to.w, a), nil
		}
		return fmt.Sprintf("(BitVec.setWidth %d %s)", to.w, a), nil
	}
	var key string
	var args []ast.Expr
	switch f := e.Fun.(type) {
	case *ast.Ident:
		key = f.Name
	case *ast.SelectorExpr:
		// method call on a value of a named type in this package
		key = f.Sel.Name
		if tv, ok := x.p.info.Types[f.X]; ok && tv.Type != nil {
			t := tv.Type
			if p, ok := t.(*types.Pointer); ok {
				t = p.Elem()
			}
			if n, ok := t.(*types.Named); ok {
				key = n.Obj().Name() + "." + f.Sel.Name
			}
		}
		args = append(args, f.X)
	default:
		return "", fmt.Errorf("%s: unsupported call", x.src(e))
	}
	ln, ok := x.known[key]
	if !ok {
		return "", fmt.Errorf("%s: call to untranslated function %s", x.src(e), key)
	}
	args = append(args, e.Args...)
	s := "(" + ln
	for _, a := range args {
		as, err := x.expr(a)
		if err != nil {
			return "", err
		}
		s += " " + as
	}
	return s + ")", nil
}

func leanIdent(s string) string {
	switch s {
	case "end", "at", "from", "to", "do", "then", "else", "if", "let", "fun", "in", "open", "by", "have", "show", "with", "match", "type", "def", "instance", "prefix", "local", "where", "variable":
		return s + "_"
	}
	return s
}

// stmts translates a statement list into one Lean term. recvPtr: name of a
// pointer receiver whose final value is the function result.
func (x *tr) stmts(list []ast.Stmt, recvPtr string, hasResult bool) (string, error) {
	if len(list) == 0 {
		if recvPtr != "" {
			return leanIdent(recvPtr), nil
		}
		return "", fmt.Errorf("fell off the end of a function with a result")
	}
	s := list[0]
	rest := list[1:]
	switch s := s.(type) {
	case *ast.ReturnStmt:
		if recvPtr != "" && len(s.Results) == 0 {
			return leanIdent(recvPtr), nil
		}
		if len(s.Results) != 1 {
			return "", fmt.Errorf("%s: unsupported return arity", x.src(s))
		}
		return x.expr(s.Results[0])
	case *ast.IfStmt:
		if s.Init != nil {
			return "", fmt.Errorf("%s: if-init unsupported", x.src(s))
		}
		c, err := x.expr(s.Cond)
		if err != nil {
			return "", err
		}
		// then-branch followed by rest unless it returns
		thenList := append(append([]ast.Stmt{}, s.Body.List...), restIfFallsThrough(s.Body.List, rest)...)
		th, err := x.stmts(thenList, recvPtr, hasResult)
		if err != nil {
			return "", err
		}
		var elseList []ast.Stmt
		switch el := s.Else.(type) {
		case nil:
			elseList = rest
		case *ast.BlockStmt:
			elseList = append(append([]ast.Stmt{}, el.List...), restIfFallsThrough(el.List, rest)...)
		case *ast.IfStmt:
			elseList = append([]ast.Stmt{el}, rest...)
		}
		el, err := x.stmts(elseList, recvPtr, hasResult)
		if err != nil {
			return "", err
		}
		return "(if " + c + " then " + th + " else " + el + ")", nil
	case *ast.AssignStmt:
		if len(s.Lhs) != 1 || len(s.Rhs) != 1 {
			return "", fmt.Errorf("%s: multi-assign unsupported", x.src(s))
		}
		var name string
		switch l := s.Lhs[0].(type) {
		case *ast.Ident:
			name = l.Name
		case *ast.StarExpr:
			id, ok := l.X.(*ast.Ident)
			if !ok {
				return "", fmt.Errorf("%s: unsupported lhs", x.src(s))
			}
			name = id.Name
		default:
			return "", fmt.Errorf("%s: unsupported lhs", x.src(s))
		}
		rhs, err := x.expr(s.Rhs[0])
		if err != nil {
			return "", err
		}
		if s.Tok != token.DEFINE && s.Tok != token.ASSIGN {
			op := map[token.Token]token.Token{
				token.ADD_ASSIGN: token.ADD, token.SUB_ASSIGN: token.SUB, token.MUL_ASSIGN: token.MUL,
				token.AND_ASSIGN: token.AND, token.OR_ASSIGN: token.OR, token.XOR_ASSIGN: token.XOR,
				token.SHL_ASSIGN: token.SHL, token.SHR_ASSIGN: token.SHR, token.QUO_ASSIGN: token.QUO, token.REM_ASSIGN: token.REM,
			}[s.Tok]
			if op == token.ILLEGAL {
				return "", fmt.Errorf("%s: unsupported assign op", x.src(s))
			}
			be := &ast.BinaryExpr{X: s.Lhs[0], Op: op, Y: s.Rhs[0], OpPos: s.Pos()}
			// type info for synthetic node: reuse lhs type
			x.p.info.Types[be] = x.p.info.Types[s.Lhs[0]]
			if st, ok := s.Lhs[0].(*ast.StarExpr); ok {
				x.p.info.Types[st] = types.TypeAndValue{Type: derefType(x.p.info.Types[st.X].Type)}
				x.p.info.Types[be] = x.p.info.Types[st]
			}
			rhs, err = x.binary(be)
			if err != nil {
				return "", err
			}
		}
		body, err := x.stmts(rest, recvPtr, hasResult)
		if err != nil {
			return "", err
		}
		return "(let " + leanIdent(name) + " := " + rhs + "; " + body + ")", nil
	case *ast.IncDecStmt:
		id, ok := s.X.(*ast.Ident)
		if !ok {
			return "", fmt.Errorf("%s: unsupported incdec", x.src(s))
		}
		t, err := x.typeOf(s.X)
		if err != nil {
			return "", err
		}
		op := " + "
		if s.Tok == token.DEC {
			op = " - "
		}
		body, err := x.stmts(rest, recvPtr, hasResult)
		if err != nil {
			return "", err
		}
		return fmt.Sprintf("(let %s := %s%s1#%d; %s)", leanIdent(id.Name), leanIdent(id.Name), op, t.w, body), nil
	case *ast.BlockStmt:
		return x.stmts(append(append([]ast.Stmt{}, s.List...), rest...), recvPtr, hasResult)
	}
	return "", fmt.Errorf("%s: unsupported statement %T", x.src(s), s)
}

func derefType(t types.Type) types.Type {
	if p, ok := t.(*types.Pointer); ok {
		return p.Elem()
	}
	return t
}

func restIfFallsThrough(body []ast.Stmt, rest []ast.Stmt) []ast.Stmt {
	if len(body) > 0 {
		if _, ok := body[len(body)-1].(*ast.ReturnStmt); ok {
			return nil
		}
	}
	return rest
}

type funcSpec struct {
	recv, name string
}

func (x *tr) transFunc(fs funcSpec) (string, error) {
	fd := x.p.findFunc(fs.recv, fs.name)
	if fd == nil {
		return "", fmt.Errorf("function %s.%s not found", fs.recv, fs.name)
	}
	var params []string
	recvPtr := ""
	addParam := func(names []*ast.Ident, te ast.Expr) error {
		tv := x.p.info.Types[te]
		t, err := basicTy(tv.Type)
		if err != nil {
			return fmt.Errorf("%s: %v", x.src(te), err)
		}
		for _, n := range names {
			params = append(params, fmt.Sprintf("(%s : %s)", leanIdent(n.Name), t.lean()))
		}
		return nil
	}
	if fd.Recv != nil {
		f := fd.Recv.List[0]
		if _, ok := f.Type.(*ast.StarExpr); ok {
			recvPtr = f.Names[0].Name
		}
		if err := addParam(f.Names, f.Type); err != nil {
			return "", err
		}
	}
	for _, f := range fd.Type.Params.List {
		if err := addParam(f.Names, f.Type); err != nil {
			return "", err
		}
	}
	var ret string
	hasResult := fd.Type.Results != nil && len(fd.Type.Results.List) == 1
	if hasResult {
		tv := x.p.info.Types[fd.Type.Results.List[0].Type]
		t, err := basicTy(tv.Type)
		if err != nil {
			return "", err
		}
		ret = t.lean()
		recvPtr = ""
	} else if recvPtr != "" {
		tv := x.p.info.Types[fd.Recv.List[0].Type]
		t, err := basicTy(tv.Type)
		if err != nil {
			return "", err
		}
		ret = t.lean()
	} else {
		return "", fmt.Errorf("%s: no result", fs.name)
	}
	body, err := x.stmts(fd.Body.List, recvPtr, hasResult)
	if err != nil {
		return "", err
	}
	key := fs.name
	if fs.recv != "" {
		key = fs.recv + "." + fs.name
	}
	ln := x.ns + "." + fs.name
	x.known[key] = ln
	return fmt.Sprintf("/-- generated from `%s` (%s) -/\ndef %s %s : %s :=\n  %s\n", key, filepath.Base(x.p.fset.Position(fd.Pos()).Filename), fs.name, strings.Join(params, " "), ret, body), nil
}

// transExpr: find `lhs = <expr>` or `lhs := <expr>` in function and emit it as a def of its free variables.
func (x *tr) transExpr(fs funcSpec, lhs string, defName string, nth int) (string, error) {
	fd := x.p.findFunc(fs.recv, fs.name)
	if fd == nil {
		return "", fmt.Errorf("function %s.%s not found", fs.recv, fs.name)
	}
	var found ast.Expr
	var ftype ity
	count := 0
	ast.Inspect(fd.Body, func(n ast.Node) bool {
		as, ok := n.(*ast.AssignStmt)
		if !ok || len(as.Lhs) != 1 || len(as.Rhs) != 1 {
			return true
		}
		if id, ok := as.Lhs[0].(*ast.Ident); ok && id.Name == lhs {
			if count == nth {
				found = as.Rhs[0]
				var obj types.Object
				if o := x.p.info.Defs[id]; o != nil {
					obj = o
				} else {
					obj = x.p.info.Uses[id]
				}
				if obj != nil {
					ftype, _ = basicTy(obj.Type())
				}
			}
			count++
		}
		return true
	})
	if found == nil {
		return "", fmt.Errorf("assignment to %s (#%d) not found in %s", lhs, nth, fs.name)
	}
	x.locals = map[string]ity{}
	x.free = nil
	body, err := x.expr(found)
	if err != nil {
		return "", err
	}
	var params []string
	for _, f := range x.free {
		params = append(params, fmt.Sprintf("(%s : %s)", leanIdent(f), x.locals[f].lean()))
	}
	x.locals = nil
	return fmt.Sprintf("/-- generated from the assignment to `%s` in `%s` -/\ndef %s %s : %s :=\n  %s\n", lhs, fs.name, defName, strings.Join(params, " "), ftype.lean(), body), nil
}

// ---------------------------------------------------------------------------
// constants

func (p *pkgInfo) constVal(name string) (string, error) {
	obj := p.pkg.Scope().Lookup(name)
	if obj == nil {
		return "", fmt.Errorf("constant %s not found in %s", name, p.pkg.Name())
	}
	switch o := obj.(type) {
	case *types.Const:
		v := o.Val()
		switch v.Kind() {
		case constant.Int:
			return v.ExactString(), nil
		case constant.String:
			return fmt.Sprintf("%q", constant.StringVal(v)), nil
		case constant.Float:
			iv := constant.ToInt(v)
			if iv.Kind() == constant.Int {
				return iv.ExactString(), nil
			}
		}
		return "", fmt.Errorf("constant %s: unsupported kind", name)
	case *types.Var:
		// package var with constant initialiser
		for _, f := range p.files {
			for _, d := range f.Decls {
				gd, ok := d.(*ast.GenDecl)
				if !ok {
					continue
				}
				for _, s := range gd.Specs {
					vs, ok := s.(*ast.ValueSpec)
					if !ok {
						continue
					}
					for i, n := range vs.Names {
						if n.Name == name && i < len(vs.Values) {
							tv := p.info.Types[vs.Values[i]]
							if tv.Value != nil {
								iv := constant.ToInt(tv.Value)
								if iv.Kind() == constant.Int {
									return iv.ExactString(), nil
								}
							}
						}
					}
				}
			}
		}
	}
	return "", fmt.Errorf("%s is not a constant", name)
}

// ---------------------------------------------------------------------------
// atomic-operation shapes (tmutex, sleep)

// atomShape returns, per function, the ordered list of synchronisation
// operations (atomic.*, channel send/recv, select-default, gopark/goready)
// with literal integer arguments; control flow is recorded as
// if/for/ret markers so that reordering is visible.
func (p *pkgInfo) atomShape(recv, name string) ([]string, error) {
	fd := p.findFunc(recv, name)
	if fd == nil {
		return nil, fmt.Errorf("function %s.%s not found", recv, name)
	}
	var out []string
	var walk func(n ast.Node)
	// names the function declares itself (receiver, parameters, results, := and var) are written as v0, v1, ... in
	// the order of their declaration: renaming a local does not change the skeleton (field and package-level names
	// are part of it)
	locals := localNames(fd)
	exprStr := func(e ast.Expr) string {
		var b bytes.Buffer
		var visit func(n ast.Node) bool
		visit = func(n ast.Node) bool {
			switch n := n.(type) {
			case *ast.BasicLit:
				b.WriteString(n.Value + " ")
			case *ast.SelectorExpr:
				ast.Inspect(n.X, visit)
				b.WriteString(n.Sel.Name + " ") // a field / method / package member keeps its name
				return false
			case *ast.Ident:
				if r, ok := locals[n.Name]; ok {
					b.WriteString(r + " ")
				} else {
					b.WriteString(n.Name + " ")
				}
			case *ast.UnaryExpr:
				b.WriteString(n.Op.String() + " ")
			case *ast.BinaryExpr:
				b.WriteString("(" + n.Op.String() + ") ")
			}
			return true
		}
		ast.Inspect(e, visit)
		return strings.TrimSpace(b.String())
	}
	walk = func(n ast.Node) {
		ast.Inspect(n, func(n ast.Node) bool {
			switch n := n.(type) {
			case *ast.IfStmt:
				out = append(out, "if["+exprStr(n.Cond)+"]")
				if n.Init != nil {
					walk(n.Init)
				}
				walk(n.Cond)
				out = append(out, "then")
				walk(n.Body)
				if n.Else != nil {
					out = append(out, "else")
					walk(n.Else)
				}
				out = append(out, "fi")
				return false
			case *ast.ForStmt:
				out = append(out, "for")
				if n.Init != nil {
					walk(n.Init)
				}
				if n.Cond != nil {
					out = append(out, "cond["+exprStr(n.Cond)+"]")
					walk(n.Cond)
				}
				walk(n.Body)
				if n.Post != nil {
					walk(n.Post)
				}
				out = append(out, "rof")
				return false
			case *ast.ReturnStmt:
				for _, r := range n.Results {
					walk(r)
				}
				out = append(out, "ret["+func() string {
					var s []string
					for _, r := range n.Results {
						s = append(s, exprStr(r))
					}
					return strings.Join(s, ",")
				}()+"]")
				return false
			case *ast.SendStmt:
				out = append(out, "send["+exprStr(n.Chan)+"]")
				return false
			case *ast.UnaryExpr:
				if n.Op == token.ARROW {
					out = append(out, "recv["+exprStr(n.X)+"]")
					return false
				}
			case *ast.SelectStmt:
				out = append(out, "select")
				for _, c := range n.Body.List {
					cc := c.(*ast.CommClause)
					if cc.Comm == nil {
						out = append(out, "default")
					} else {
						walk(cc.Comm)
					}
					for _, s := range cc.Body {
						walk(s)
					}
				}
				out = append(out, "tceles")
				return false
			case *ast.AssignStmt:
				for _, r := range n.Rhs {
					walk(r)
				}
				var l []string
				for _, e := range n.Lhs {
					l = append(l, exprStr(e))
				}
				out = append(out, "assign["+strings.Join(l, ",")+"]")
				return false
			case *ast.BranchStmt:
				out = append(out, n.Tok.String())
				return false
			case *ast.CallExpr:
				if id, ok := n.Fun.(*ast.Ident); ok && strings.HasPrefix(id.Name, "verif") {
					return false // schedule-point hooks are not part of the algorithm
				}
				for _, a := range n.Args {
					walk(a)
				}
				out = append(out, "call["+exprStr(n.Fun)+"("+func() string {
					var s []string
					for _, a := range n.Args {
						s = append(s, exprStr(a))
					}
					return strings.Join(s, ",")
				}()+")]")
				return false
			}
			return true
		})
	}
	walk(fd.Body)
	return out, nil
}

// chanCap finds `make(chan T, N)` assigned to a field/var named `name` anywhere in the package.
func (p *pkgInfo) chanCaps() map[string]string {
	res := map[string]string{}
	for _, f := range p.files {
		ast.Inspect(f, func(n ast.Node) bool {
			var lhs []ast.Expr
			var rhs []ast.Expr
			switch n := n.(type) {
			case *ast.AssignStmt:
				lhs, rhs = n.Lhs, n.Rhs
			case *ast.KeyValueExpr:
				lhs, rhs = []ast.Expr{n.Key}, []ast.Expr{n.Value}
			default:
				return true
			}
			for i := range lhs {
				if i >= len(rhs) {
					break
				}
				c, ok := rhs[i].(*ast.CallExpr)
				if !ok {
					continue
				}
				id, ok := c.Fun.(*ast.Ident)
				if !ok || id.Name != "make" || len(c.Args) != 2 {
					continue
				}
				if _, ok := c.Args[0].(*ast.ChanType); !ok {
					continue
				}
				tv := p.info.Types[c.Args[1]]
				if tv.Value == nil {
					continue
				}
				name := ""
				switch l := lhs[i].(type) {
				case *ast.Ident:
					name = l.Name
				case *ast.SelectorExpr:
					name = l.Sel.Name
				}
				if name != "" {
					res[name] = constant.ToInt(tv.Value).ExactString()
				}
			}
			return true
		})
	}
	return res
}

// ---------------------------------------------------------------------------

type genFile struct {
	name string
	buf  bytes.Buffer
}

func must(err error) {
	if err != nil {
		fmt.Fprintln(os.Stderr, "gofacts:", err)
		os.Exit(2)
	}
}

// localNames maps every name the function declares itself (receiver, parameters, results, := and var) to v0, v1, ...
// in the order of declaration.
func localNames(fd *ast.FuncDecl) map[string]string {
	locals := map[string]string{}
	declare := func(id *ast.Ident) {
		if id == nil || id.Name == "_" {
			return
		}
		if _, ok := locals[id.Name]; !ok {
			locals[id.Name] = fmt.Sprintf("v%d", len(locals))
		}
	}
	fields := func(fl *ast.FieldList) {
		if fl == nil {
			return
		}
		for _, f := range fl.List {
			for _, n := range f.Names {
				declare(n)
			}
		}
	}
	fields(fd.Recv)
	fields(fd.Type.Params)
	fields(fd.Type.Results)
	ast.Inspect(fd.Body, func(n ast.Node) bool {
		switch n := n.(type) {
		case *ast.AssignStmt:
			if n.Tok == token.DEFINE {
				for _, l := range n.Lhs {
					if id, ok := l.(*ast.Ident); ok {
						declare(id)
					}
				}
			}
		case *ast.RangeStmt:
			if n.Tok == token.DEFINE {
				if id, ok := n.Key.(*ast.Ident); ok {
					declare(id)
				}
				if id, ok := n.Value.(*ast.Ident); ok {
					declare(id)
				}
			}
		case *ast.ValueSpec:
			for _, id := range n.Names {
				declare(id)
			}
		}
		return true
	})
	return locals
}

// alphaText rewrites a printed statement so that the function's own names read v0, v1, ...: an identifier that follows a
// '.' is a field, method or package member and keeps its name.
func alphaText(t string, locals map[string]string) string {
	var sc scanner.Scanner
	fs := token.NewFileSet()
	f := fs.AddFile("", fs.Base(), len(t))
	sc.Init(f, []byte(t), nil, 0)
	var b strings.Builder
	last := 0
	prev := token.ILLEGAL
	for {
		pos, tok, lit := sc.Scan()
		if tok == token.EOF {
			break
		}
		if tok == token.SEMICOLON && lit == "\n" {
			continue
		}
		off := f.Offset(pos)
		if tok == token.IDENT && prev != token.PERIOD {
			if r, ok := locals[lit]; ok {
				b.WriteString(t[last:off])
				b.WriteString(r)
				last = off + len(lit)
			}
		}
		prev = tok
	}
	b.WriteString(t[last:])
	return b.String()
}

// mentionShape lists, in source order, the printed form of every assignment / inc-dec statement and every
// if-condition of recv.name that mentions the given text (e.g. "v0.rto"): the arithmetic a model relies on. The
// function's own names (receiver, parameters, results, locals) are printed v0, v1, ... in declaration order, so that
// renaming one of them changes nothing here; fields, callees, package-level names and literals are printed as written.
func (p *pkgInfo) mentionShape(recv, name, mention string) ([]string, error) {
	fd := p.findFunc(recv, name)
	if fd == nil {
		return nil, fmt.Errorf("function %s.%s not found", recv, name)
	}
	locals := localNames(fd)
	pr := func(n ast.Node) string {
		var b bytes.Buffer
		printer.Fprint(&b, p.fset, n)
		return alphaText(strings.Join(strings.Fields(b.String()), " "), locals)
	}
	// the mention is written in the function's own names (as in the source when the spec was written) or already
	// alpha-normalised; it is matched on the normalised text at identifier boundaries
	// in the latter case; a mention that names none of them (a field, a callee, a literal) is a plain substring
	nm := alphaText(mention, locals)
	has := func(t string) bool { return strings.Contains(t, nm) }
	if nm != mention || regexp.MustCompile(`^v[0-9]+\b`).MatchString(mention) {
		tail := ""
		if c := nm[len(nm)-1]; c == '_' || c >= '0' && c <= '9' || c >= 'a' && c <= 'z' || c >= 'A' && c <= 'Z' {
			tail = `($|[^A-Za-z0-9_])`
		}
		mre := regexp.MustCompile(`(^|[^A-Za-z0-9_.])` + regexp.QuoteMeta(nm) + tail)
		has = func(t string) bool { return mre.MatchString(t) }
	}
	var out []string
	ast.Inspect(fd.Body, func(n ast.Node) bool {
		switch n := n.(type) {
		case *ast.AssignStmt:
			if t := pr(n); has(t) {
				out = append(out, t)
			}
		case *ast.IncDecStmt:
			if t := pr(n); has(t) {
				out = append(out, t)
			}
		case *ast.ExprStmt:
			if t := pr(n); has(t) {
				out = append(out, t)
			}
		case *ast.IfStmt:
			if t := pr(n.Cond); has(t) {
				out = append(out, "if "+t)
			}
		case *ast.ForStmt:
			if n.Cond != nil {
				if t := pr(n.Cond); has(t) {
					out = append(out, "for "+t)
				}
			}
		case *ast.CaseClause:
			for _, e := range n.List {
				if t := pr(e); has(t) {
					out = append(out, "case "+t)
				}
			}
		}
		return true
	})
	return out, nil
}

func leanStrList(name string, l []string) string {
	var b strings.Builder
	fmt.Fprintf(&b, "def %s : List String := [", name)
	for i, s := range l {
		if i > 0 {
			b.WriteString(", ")
		}
		fmt.Fprintf(&b, "%q", s)
	}
	b.WriteString("]\n")
	return b.String()
}

func main() {
	if len(os.Args) < 4 || os.Args[1] != "gen" {
		fmt.Fprintln(os.Stderr, "usage: gofacts gen <repo> <outdir>")
		os.Exit(2)
	}
	repo, out := os.Args[2], os.Args[3]
	must(os.MkdirAll(out, 0o755))
	pkgs := map[string]*pkgInfo{}
	load := func(rel string) *pkgInfo {
		if p, ok := pkgs[rel]; ok {
			return p
		}
		p, err := loadPkg(filepath.Join(repo, rel))
		must(err)
		pkgs[rel] = p
		return p
	}
	write := func(name, content string) {
		must(os.WriteFile(filepath.Join(out, name+".lean"), []byte("-- GENERATED by gofacts from /repo; do not edit.\n"+content), 0o644))
	}

	// ---- Seqnum (whole package)
	{
		p := load("pkg/seqnum")
		x := &tr{p: p, ns: "Gen.Seqnum", known: map[string]string{}}
		var b strings.Builder
		b.WriteString("namespace Gen.Seqnum\n\n")
		// translate in dependency order; every func in the package must be translated
		order := []funcSpec{{"Value", "LessThan"}, {"Value", "LessThanEq"}, {"Value", "InRange"}, {"Value", "Add"}, {"Value", "InWindow"}, {"", "Overlap"}, {"Value", "Size"}, {"Value", "UpdateForward"}}
		seen := map[string]bool{}
		for _, fs := range order {
			s, err := x.transFunc(fs)
			must(err)
			b.WriteString(s + "\n")
			seen[fs.recv+"."+fs.name] = true
		}
		// any other function in the package is an error (package grew)
		for _, f := range p.files {
			for _, d := range f.Decls {
				if fd, ok := d.(*ast.FuncDecl); ok {
					r := ""
					if fd.Recv != nil {
						t := fd.Recv.List[0].Type
						if s, ok := t.(*ast.StarExpr); ok {
							t = s.X
						}
						r = t.(*ast.Ident).Name
					}
					if !seen[r+"."+fd.Name.Name] {
						must(fmt.Errorf("pkg/seqnum: function %s.%s is not covered by the translator spec", r, fd.Name.Name))
					}
				}
			}
		}
		b.WriteString("end Gen.Seqnum\n")
		write("Seqnum", b.String())
	}

	// ---- Arith: assorted integer functions and expressions
	{
		var b strings.Builder
		b.WriteString("namespace Gen.Arith\n\n")
		hp := load("protocol/header")
		x := &tr{p: hp, ns: "Gen.Arith", known: map[string]string{}}
		s, err := x.transFunc(funcSpec{"", "ChecksumCombine"})
		must(err)
		b.WriteString(s + "\n")
		pp := load("protocol/ports")
		x = &tr{p: pp, ns: "Gen.Arith", known: map[string]string{}}
		s, err = x.transExpr(funcSpec{"PortManager", "PickEphemeralPort"}, "port", "pickPort", 0)
		must(err)
		b.WriteString(s + "\n")
		s, err = x.transExpr(funcSpec{"PortManager", "PickEphemeralPort"}, "count", "pickCount", 0)
		must(err)
		b.WriteString(s + "\n")
		b.WriteString("end Gen.Arith\n")
		write("Arith", b.String())
	}

	// ---- Consts
	{
		var b strings.Builder
		b.WriteString("namespace Gen.Consts\n\n")
		type cs struct {
			pkg   string
			names []string
		}
		list := []cs{
			{"protocol/ports", []string{"FirstEphemeral"}},
			{"protocol/header", []string{
				"srcPort", "dstPort", "seqNum", "ackNum", "dataOffset", "tcpFlags", "winSize", "tcpChecksum", "urgentPtr",
				"TCPMinimumSize", "TCPOptionEOL", "TCPOptionNOP", "TCPOptionMSS", "TCPOptionWS", "TCPOptionTS", "TCPOptionSACKPermitted", "TCPOptionSACK",
				"versIHL", "tos", "totalLen", "id", "flagsFO", "ttl", "protocol", "checksum", "srcAddr", "dstAddr",
				"IPv4MinimumSize", "IPv4MaximumHeaderSize", "IPv4Version", "IPv4FlagMoreFragments", "IPv4FlagDontFragment",
				"udpSrcPort", "udpDstPort", "udpLength", "udpChecksum", "UDPMinimumSize",
				"versTCFL", "payloadLen", "nextHdr", "hopLimit", "v6SrcAddr", "v6DstAddr", "IPv6MinimumSize",
				"dstMAC", "srcMAC", "ethType", "EtheernetMinimumsize", "ARPSize", "TCPFlagFin", "TCPFlagSyn", "TCPFlagRst", "TCPFlagPsh", "TCPFlagAck", "TCPFlagUrg", "IPv6Version", "IPv6FragmentHeaderSize", "ICMPv6EchoMinimumSize", "ICMPv6NeighborAdvertSize", "ICMPv6NeighborSolicitMinimumSize",
				"ICMPv4MinimumSize", "ICMPv4EchoMinimumSize", "ICMPv6MinimumSize",
				"MaxWndScale", "TCPMaxSACKBlocks",
			}},
			{"protocol/network/fragmentation", []string{"HighFragThreshold", "LowFragThreshold"}},
			{"stack", []string{"linkAddrCacheSize", "ageLimit", "resolutionTimeout", "resolutionAttempts"}},
		}
		for _, c := range list {
			p := load(c.pkg)
			for _, n := range c.names {
				v, err := p.constVal(n)
				must(err)
				fmt.Fprintf(&b, "def %s : Nat := %s\n", leanIdent(n), v)
			}
		}
		// transport/tcp: congestion / recovery / timer constants (prefixed: the names are package-local)
		{
			p := load("protocol/transport/tcp")
			for _, n := range []string{"InitialCwnd", "nDupAckThreshold", "minRTO", "maxSegmentsPerWake", "flagFin", "flagSyn", "flagRst", "flagPsh", "flagAck", "maxOptionSize", "maxTSDiff", "tsLen", "tsMask", "tsOffset", "hashMask"} {
				v, err := p.constVal(n)
				must(err)
				fmt.Fprintf(&b, "def tcp_%s : Nat := %s\n", leanIdent(n), v)
			}
		}
		// application/websocket: frame header bits
		{
			p := load("protocol/application/websocket")
			for _, n := range []string{"finalBit", "maskBit", "TextMessage", "CloseMessage"} {
				v, err := p.constVal(n)
				must(err)
				fmt.Fprintf(&b, "def ws_%s : Nat := %s\n", leanIdent(n), v)
			}
		}
		b.WriteString("\nend Gen.Consts\n")
		write("Consts", b.String())
	}

	// ---- Atomic shapes
	{
		var b strings.Builder
		b.WriteString("namespace Gen.Shapes\n\n")
		tp := load("pkg/tmutex")
		for _, fn := range []string{"Init", "Lock", "TryLock", "Unlock"} {
			sh, err := tp.atomShape("Mutex", fn)
			must(err)
			b.WriteString(leanStrList("tmutex_"+fn, sh))
		}
		caps := tp.chanCaps()
		keys := []string{}
		for k := range caps {
			keys = append(keys, k)
		}
		sort.Strings(keys)
		for _, k := range keys {
			fmt.Fprintf(&b, "def tmutex_chancap_%s : Nat := %s\n", k, caps[k])
		}
		ip4 := load("protocol/network/ipv4")
		c4 := ip4.chanCaps()
		if v, ok := c4["echoRequests"]; ok {
			fmt.Fprintf(&b, "def ipv4_echoRequests_cap : Nat := %s\n", v)
		} else {
			must(fmt.Errorf("ipv4: capacity of the echoRequests channel not found"))
		}
		// transport/tcp: the statements the timing-free model abstracts (retransmission timeout arithmetic,
		// congestion window updates, the send gate)
		tcpp := load("protocol/transport/tcp")
		for _, sp := range []struct{ lean, recv, fn, mention string }{
			{"tcp_rto_expired", "sender", "retransmitTimerExpired", "v0.rto"},
			{"tcp_rto_update", "sender", "updateRTO", "v0.rto"},
			{"tcp_rtt_sample", "sender", "handleRcvdSegment", "rttMeasure"},
			{"tcp_send_gate", "sender", "sendData", "v0.outstanding"},
			{"tcp_cwnd_dupack", "sender", "checkDuplicateAck", "dupAckCount"},
			{"tcp_cwnd_ss", "renoState", "updateSlowStart", "v2" /* newcwnd */},
			{"tcp_cwnd_ca", "renoState", "updateCongestionAvoidance", "snd"},
			{"tcp_cwnd_rto", "renoState", "HandleRTOExpired", "sndCwnd"},
			{"tcp_ssthresh", "renoState", "reduceSlowStartThreshold", "sndSsthresh"},
			{"tcp_trim_ack", "sender", "handleRcvdSegment", "v6" /* ackLeft */},
		} {
			sh, err := tcpp.mentionShape(sp.recv, sp.fn, sp.mention)
			must(err)
			b.WriteString(leanStrList(sp.lean, sh))
		}
		// pkg/sleep: control / atomic-operation skeleton of the functions the interleaving model mirrors
		{
			sp := load("pkg/sleep")
			for _, f := range []struct{ lean, recv, fn string }{
				{"sleep_nextWaker", "Sleeper", "nextWaker"}, {"sleep_Fetch", "Sleeper", "Fetch"},
				{"sleep_enqueue", "Sleeper", "enqueueAssertedWaker"}, {"sleep_Assert", "Waker", "Assert"}, {"sleep_Clear", "Waker", "Clear"},
				{"sleep_Done", "Sleeper", "Done"}, {"sleep_AddWaker", "Sleeper", "AddWaker"},
			} {
				sh, err := sp.atomShape(f.recv, f.fn)
				must(err)
				b.WriteString(leanStrList(f.lean, sh))
			}
		}
		// ipv4: how the identifier of an outgoing packet is chosen
		{
			sh, err := ip4.mentionShape("endpoint", "WritePacket", "v8" /* id */)
			must(err)
			b.WriteString(leanStrList("ipv4_id_alloc", sh))
		}
		// application: the statements the HTTP / WebSocket models mirror
		{
			hp := load("protocol/application/http")
			wp := load("protocol/application/websocket")
			for _, sp := range []struct {
				p                       *pkgInfo
				lean, recv, fn, mention string
			}{
				{hp, "http_header_loop", "Request", "parse", "v6" /* tmp */},
				{hp, "http_blank_line", "Request", "parse", "HasPrefix"},
				{hp, "http_body", "Request", "parse", "v0.body"},
				{hp, "http_parse_status", "Request", "parse", "status_code"},
				{hp, "http_set_status", "Connection", "set_status_code", "status_code"},
				{hp, "http_error", "Response", "Error", "status_code"},
				{hp, "http_dispatch", "ServeMux", "dispatch", "defaultMux"},
				{hp, "http_server_read", "ServerSocket", "Read", "notifyC"},
				{hp, "http_match_until", "", "match_until", "v2" /* i */},
				{wp, "ws_send_len", "Conn", "SendData", "v2" /* length */},
				{wp, "ws_read_len", "Conn", "ReadData", "v8" /* dataLen */},
				{wp, "ws_read_hdr", "Conn", "ReadData", "v3[" /* b[ */},
				{wp, "ws_read_case", "Conn", "ReadData", "12"},
				{wp, "ws_mask", "", "maskBytes", "v2" /* pos */},
			} {
				sh, err := sp.p.mentionShape(sp.recv, sp.fn, sp.mention)
				must(err)
				b.WriteString(leanStrList(sp.lean, sh))
			}
		}
		b.WriteString("\nend Gen.Shapes\n")
		write("Shapes", b.String())
	}
	fmt.Println("gofacts: ok")
}
