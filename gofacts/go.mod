module gofacts

go 1.21
