"""TCP (C01-C05): per-property projections of the trace correspondence and the spec-level oracles that
search the implementation's own outputs for a concrete failing input.

The Lean model (Model/Tcp.lean, driven by Driver/Tcp.lean) is compared with the real stack on every
op; each property compares the projection of the outputs it speaks about, so that a change in, say,
the advertised window breaks C04's correspondence and not C03's.  The oracles below never look at
the model: they judge what the stack did against the statement of the property, from the ops the
scripted peer / application performed and the segments the stack emitted.
"""
import re

M = 1 << 32
SEG = re.compile(r"\[(\S+) seq=(\d+) ack=(\d+) wnd=(\d+) opt=(\S+) len=(\d+) d=(\S+)\]")


def segs_of(out):
    return [dict(fl=m.group(1), seq=int(m.group(2)), ack=int(m.group(3)), wnd=int(m.group(4)),
                 opt=("" if m.group(5) == "-" else m.group(5)), len=int(m.group(6)), d=m.group(7)) for m in SEG.finditer(out)]


def head_of(out):
    """the part of an output before the first segment / '-' (API result words)"""
    i = out.find("[")
    h = out if i < 0 else out[:i]
    h = h.strip()
    if h.endswith(" -"):
        h = h[:-2]
    return "" if h == "-" else h.strip()


def project(pid, tag, op, out):
    """projection of one output line for property pid; tag says who handled the op (h/a/e)"""
    ss = segs_of(out)
    head = head_of(out)
    kind = op.split(" ", 1)[0]
    if pid == "C03":
        if tag == "h":
            return out
        if tag == "a":
            return head
        rst = ["%s:%d:%d" % (s["fl"], s["seq"], s["ack"]) for s in ss if "R" in s["fl"]]
        err = head if re.search(r"refused|reset|aborted|invalid", head) else ""
        return " ".join(rst + [err]).strip()
    if pid == "C14":
        # the consequence clause of C14 speaks about all of them
        return " || ".join(project(q, tag, op, out) for q in ("C01", "C02", "C03", "C04", "C05"))
    if tag == "h":
        return ""
    if pid == "C01":
        data = ["%d+%d=%s" % (s["seq"], s["len"], s["d"]) for s in ss if s["len"] > 0]
        h = head if kind in ("tcp.read", "tcp.write") else ""
        return " ".join([h] + data).strip()
    if pid == "C02":
        fin = ["%s:%d" % (s["fl"], s["seq"]) for s in ss if "F" in s["fl"] or "R" in s["fl"]]
        h = re.sub(r"data=[0-9a-f]*", "data", head)
        h = re.sub(r"n=\d+", "n", h)
        r = ["%s:%d+%d" % (s["fl"], s["seq"], s["len"]) for s in ss] if kind == "rto" else []
        return " ".join([h] + fin + r).strip()
    if pid == "C04":
        return " ".join([head if kind == "tcp.write" else ""] + ["%d+%d/%d:%d/%d" % (s["seq"], s["len"], s["ack"], s["wnd"], len(s["opt"]) // 2) for s in ss]).strip()
    if pid == "C05":
        return " ".join("%s%d+%d" % ("F" if "F" in s["fl"] else "", s["seq"], s["len"]) for s in ss if s["len"] > 0 or "F" in s["fl"])
    return out


# ---------------------------------------------------------------------------------------------
def fnv(b):
    h = 2166136261
    for c in b:
        h = ((h ^ c) * 16777619) & 0xffffffff
    return h


def digest(b):
    if len(b) <= 24:
        return b.hex() if b else "-"
    return "%s..%08x" % (b[:8].hex(), fnv(b))


def sdiff(a, b):
    """signed distance a-b modulo 2^32"""
    d = (a - b) % M
    return d - M if d >= M // 2 else d


def parse_opts(h):
    """-> dict(mss, ws, ts, sackperm) from option bytes (hex)"""
    b = bytes.fromhex(h) if h and h != "-" else b""
    r = {"mss": None, "ws": None, "ts": False, "tsval": 0, "sack": False}
    i = 0
    while i < len(b):
        k = b[i]
        if k == 0:
            break
        if k == 1:
            i += 1
            continue
        if i + 1 >= len(b) or b[i + 1] < 2 or i + b[i + 1] > len(b):
            break
        ln = b[i + 1]
        if k == 2 and ln == 4:
            r["mss"] = (b[i + 2] << 8) | b[i + 3]
        elif k == 3 and ln == 3:
            r["ws"] = min(b[i + 2], 14)
        elif k == 8 and ln == 10:
            r["ts"] = True
            r["tsval"] = int.from_bytes(b[i + 2:i + 6], "big")
        elif k == 4 and ln == 2:
            r["sack"] = True
        i += ln
    return r


class Conn:
    def __init__(self):
        self.pport = None
        self.iss = None        # stack's initial sequence number
        self.irs = None        # peer's
        self.peer_mss = 536
        self.scale = 0         # shift applied to the peer's window fields
        self.my_ws = 0         # shift applied to the stack's window fields
        self.ts = False
        self.W = bytearray()   # bytes accepted by Write
        self.P = []            # peer stream pieces (offset, bytes)
        self.nread = 0
        self.una = 0           # offsets from iss+1
        self.max_end = 0
        self.edge = 0
        self.flight = {}       # start offset -> length of sent, not yet fully acknowledged segments
        self.credits = 0
        self.adv_edge = None
        self.rcv_nxt = 0       # offset from irs+1 the stack has acknowledged
        self.adv_wnd = 0
        self.shutdown = False
        self.peer_fin = None
        self.rcv_closed = False
        self.eof_seen = False
        self.alive = True
        self.loss_episode = False
        self.dup = 0
        # RFC 6582 bookkeeping: `recover` is the highest offset sent when the last recovery / timeout began
        # (initially before the first byte); a third duplicate ACK must trigger a fast retransmission exactly when the
        # acknowledgement covers more than `recover`
        self.recover = -1
        self.in_recovery = False
        self.Pin = []          # [start, end) of the peer's data segments that began inside the advertised window
        self.prev_wnd = None
        self.last_rto = None
        self.mtu = 1500
        self.fin_sent = False
        self.cc = ""
        self.cookie_offset = False
        self.cookie = False


class Oracle:
    """feeds on (op, impl output) pairs of one run; verdict(i) -> list of classes"""

    def __init__(self):
        self.reset_world("")

    def reset_world(self, op):
        kv = dict(x.split("=", 1) for x in op.split()[1:] if "=" in x)
        self.mtu = int(kv.get("mtu", 1500) or 1500)
        self.cc = kv.get("cc", "")
        self.rcvbuf = int(kv.get("rcvbuf", 0) or 0)
        self.listening = False
        self.cookie = False
        self.hs = {}          # peer port -> handshake record (passive)
        self.pending = []     # completed passive handshakes awaiting Accept
        self.active = None    # active open in progress
        self.conn = {}        # endpoint index -> Conn
        self.byport = {}      # peer port -> Conn (established)
        self.next_ep = 0

    # -- helpers ---------------------------------------------------------------------------
    def expect_reset_for(self, f, out_segs, bad, cls, allow_silent=False):
        """a stray segment must be answered by exactly one reset that acknowledges it"""
        if "R" in f["fl"]:
            if out_segs:
                bad.append("c03.rst-answered")
            return
        if allow_silent and not out_segs:
            return
        want_seq = f["ack"] if "A" in f["fl"] else 0
        ll = f["len"] + ("S" in f["fl"]) + ("F" in f["fl"])
        if len(out_segs) != 1 or "R" not in out_segs[0]["fl"] or out_segs[0]["seq"] != want_seq:
            bad.append(cls)
        elif cls == "c03.no-socket-reset" and ("A" not in out_segs[0]["fl"] or out_segs[0]["ack"] != (f["seq"] + ll) % M):
            bad.append(cls)

    def step(self, op, out):
        bad = []
        t = op.split(" ")
        k = t[0]
        outs = segs_of(out)
        head = head_of(out)
        if k == "tcp.reset":
            self.reset_world(op)
        elif k == "tcp.listen":
            self.listening = True
        elif k == "tcp.cookiemode":
            self.cookie = t[1] == "1"
        elif k == "tcp.connect":
            iss = int(op.split("iss=")[1])
            syn = [s for s in outs if "S" in s["fl"]]
            self.active = {"idx": int(t[1]), "iss": iss, "syn_seen": False, "myopts": parse_opts(syn[0]["opt"]) if syn else parse_opts(""),
                           "mywnd": syn[0]["wnd"] if syn else 0}
            self.next_ep = max(self.next_ep, int(t[1]) + 1)
            if not syn or syn[0]["seq"] != iss:
                pass  # the pinned ISS is harness plumbing, not a property
        elif k == "seg":
            f = dict(sp=int(t[1]), dp=int(t[2]), fl=t[3], seq=int(t[4]), ack=int(t[5]), wnd=int(t[6]),
                     opt=("" if t[7] == "-" else t[7]), data=(b"" if t[8] == "-" else bytes.fromhex(t[8])))
            f["len"] = len(f["data"])
            self.on_seg(f, outs, bad)
        elif k == "tcp.accept":
            if head.startswith("ok:"):
                idx = int(head[3:].split()[0])
                if self.pending:
                    h = self.pending.pop(0)
                    # which acknowledgement the stack took is read off the first thing the connection emits
                    self.establish_passive(idx, h, h["S"])
                else:
                    bad.append("c03.accept-without-handshake")
                c = self.conn.get(idx)
                if c:
                    self.on_emit(c, outs, bad, None)
        elif k in ("tcp.write", "tcp.read", "tcp.shutdown", "rto"):
            c = self.conn.get(int(t[1]))
            if c is not None:
                getattr(self, "on_" + k.replace("tcp.", ""))(c, t, head, outs, bad, op)
        return bad

    def establish_passive(self, idx, h, iss):
        c = Conn()
        c.pport, c.iss, c.irs = h["p"], iss, h["irs"]
        so = h["synopts"]
        c.peer_mss = so["mss"] if so["mss"] is not None else 536
        mine = h["myopts"]
        both_ws = so["ws"] is not None and mine["ws"] is not None and not h["cookie"]
        c.scale = so["ws"] if both_ws else 0
        c.my_ws = mine["ws"] if both_ws else 0
        c.ts = so["ts"] and mine["ts"]
        if h["cookie"] and h.get("ackopts") is not None:
            # a connection created from a cookie knows only what the completing ACK carries: timestamps are in use
            # iff that ACK had the option (the SYN's options were not kept)
            c.ts = h["ackopts"]["ts"]
        # offered so far: the SYN's window (never scaled) and the window of the final ACK
        c.edge = max(h["synwnd"] if not h["cookie"] else 0, h.get("ackwnd", 0) << c.scale)
        c.mtu, c.cc = self.mtu, self.cc
        c.prev_wnd = h["synwnd"]
        c.adv_wnd = h.get("mywnd", 0)      # the window of the stack's SYN-ACK (never scaled)
        c.hs = h
        c.cookie = h["cookie"]
        self.conn[idx] = c
        self.byport[h["p"]] = c
        # segments the peer sent between the handshake's completion and Accept() are processed now
        for f in h["queued"]:
            self.peer_to_conn(c, f)

    # -- inbound segments ------------------------------------------------------------------
    def on_seg(self, f, outs, bad):
        p = f["sp"]
        if f["dp"] != 8080:
            self.expect_reset_for(f, outs, bad, "c03.no-socket-reset")
            return
        if "R" in f["fl"] and outs:
            bad.append("c03.rst-answered")
        c = self.byport.get(p)
        if c is not None:
            # what the stack had advertised before this segment arrived
            f["rcv_nxt_before"], f["adv_wnd_before"], f["closed_before"] = c.rcv_nxt, c.adv_wnd, (c.rcv_closed or c.peer_fin is not None)
            f["una_before"], f["max_end_before"], f["fin_sent_before"] = c.una, c.max_end, c.fin_sent
            self.peer_to_conn(c, f)
            self.on_emit(c, outs, bad, f)
            return
        a = self.active
        if a is not None and p == 40000:
            self.on_active(a, f, outs, bad)
            return
        for h in self.pending:
            if h["p"] == p:
                if f["fl"] == "A":
                    h["acks"].append(f["ack"])
                h["queued"].append(f)
                return
        h = self.hs.get(p)
        if h is not None and not h["done"]:
            self.on_passive(h, f, outs, bad)
            return
        if self.listening and f["fl"] == "S":
            sa = [s for s in outs if "S" in s["fl"] and "A" in s["fl"]]
            if sa:
                self.hs[p] = {"p": p, "irs": f["seq"], "S": sa[0]["seq"], "cookie": self.cookie, "synopts": parse_opts(f["opt"]),
                              "myopts": parse_opts(sa[0]["opt"]), "mywnd": sa[0]["wnd"], "synwnd": f["wnd"], "acks": [], "done": False, "queued": []}
                if sa[0]["ack"] != (f["seq"] + 1) % M:
                    bad.append("c03.synack-wrong-ack")
            return
        # nothing owns this segment
        if not self.listening and self.active is None:
            return  # the connecting endpoint's port: ownership depends on the 4-tuple, judged by the model only
        if self.listening and "A" in f["fl"] and "S" not in f["fl"]:
            # an ACK-bearing stray at the listener (not a cookie we know of): reset or, in cookie mode, silence
            self.expect_reset_for(f, outs, bad, "c03.stray-ack-not-reset", allow_silent=self.cookie)

    def on_passive(self, h, f, outs, bad):
        exact = (h["S"] + 1) % M
        if "R" in f["fl"]:
            return
        if "A" in f["fl"]:
            if f["fl"].replace("P", "") == "A":
                h["acks"].append(f["ack"])
                h["ackwnd"] = max(h.get("ackwnd", 0), f["wnd"])
            if f["ack"] == exact:
                if "S" not in f["fl"] and "F" not in f["fl"]:
                    if not h.get("done"):
                        h["ackopts"] = parse_opts(f["opt"])
                    h["done"] = True
                    self.pending.append(h)
            else:
                if h["cookie"] and f["fl"] == "A" and not outs and abs(sdiff(f["ack"], exact)) <= 3:
                    # silently taken or silently dropped: the connection's own sequence numbers will tell
                    if not h.get("done"):
                        h["ackopts"] = parse_opts(f["opt"])
                    h["done"] = True
                    self.pending.append(h)
                    return
                self.expect_reset_for(f, outs, bad, "c03.wrong-ack-not-reset", allow_silent=h["cookie"])

    def on_active(self, a, f, outs, bad):
        exact = (a["iss"] + 1) % M
        if "R" in f["fl"]:
            if "A" in f["fl"] and f["ack"] == exact:
                self.active = None
            return
        if "A" in f["fl"] and f["ack"] != exact:
            self.expect_reset_for(f, outs, bad, "c03.wrong-ack-not-reset")
            # and the connection must not come up
            if any(s["fl"] == "A" and s["seq"] == exact for s in outs):
                bad.append("c03.active-open-on-wrong-ack")
            return
        if "S" in f["fl"]:
            a["syn_seen"] = True
            a["irs"] = f["seq"]
            a["synopts"] = parse_opts(f["opt"])
            a["synwnd"] = f["wnd"]
        if "A" in f["fl"] and f["ack"] == exact and a["syn_seen"]:
            c = Conn()
            c.pport, c.iss, c.irs = 40000, a["iss"], a["irs"]
            so, mine = a["synopts"], a["myopts"]
            c.peer_mss = so["mss"] if so["mss"] is not None else 536
            both_ws = so["ws"] is not None and mine["ws"] is not None
            c.scale = so["ws"] if both_ws else 0
            c.my_ws = mine["ws"] if both_ws else 0
            c.ts = so["ts"] and mine["ts"]
            c.edge = f["wnd"] if "S" in f["fl"] else (f["wnd"] << c.scale)
            c.prev_wnd = c.edge
            c.adv_wnd = a.get("mywnd", 0)      # the window of the stack's SYN (never scaled)
            c.mtu, c.cc = self.mtu, self.cc
            self.conn[a["idx"]] = c
            self.byport[40000] = c
            self.active = None
            self.on_emit(c, outs, bad, None)

    # -- established connection: what the peer did ------------------------------------------
    def peer_to_conn(self, c, f):
        if c.ts and not parse_opts(f["opt"])["ts"] and "R" not in f["fl"]:
            f["dropped"] = True
            return
        if "R" in f["fl"]:
            off = sdiff(f["seq"], (c.irs + 1) % M)
            if c.rcv_nxt <= off <= c.rcv_nxt + max(c.adv_wnd, 1) + (1 << 16):
                c.alive = False   # (lenient: anything near the window may end the connection)
            return
        if "A" not in f["fl"]:
            f["dropped"] = True
            return
        off = sdiff(f["seq"], (c.irs + 1) % M)
        if f["len"] and abs(off) < (1 << 30):
            c.P.append((off, f["data"]))
            # did the segment begin before the right edge of the window advertised when it arrived (the advertised
            # window is the promised one rounded down by the scale: up to 2^scale - 1 bytes of slack)?
            rb, wb = f.get("rcv_nxt_before"), f.get("adv_wnd_before")
            # (a window field of 65535 is saturated: the window the stack keeps may be larger than it can say)
            sat = wb is not None and (wb >> c.my_ws) >= 65535
            if rb is not None and wb is not None and wb > 0 and (sat or off < rb + wb + (1 << c.my_ws) - 1) and off + f["len"] > rb:
                c.Pin.append((off, off + f["len"]))
        if "F" in f["fl"] and c.peer_fin is None and off + f["len"] >= c.rcv_nxt and off <= c.rcv_nxt + c.adv_wnd:
            c.peer_fin = off + f["len"]
        a = sdiff(f["ack"], (c.iss + 1) % M)
        w = f["wnd"] << c.scale
        f["isdup"] = False
        if c.una < a <= c.max_end:
            # newly acknowledged: whole segments earn a credit
            for st in sorted(c.flight):
                if st + c.flight[st] <= a:
                    del c.flight[st]
                    c.credits += 1
                elif st < a:
                    c.flight[a] = st + c.flight.pop(st) - a
            c.una = a
            c.dup = 0
            c.last_rto = None
            if c.in_recovery and a > c.recover:
                # full acknowledgement: recovery ends; the mark moves to the highest offset sent so far
                c.in_recovery = False
                c.recover = c.max_end - 1
        elif a == c.una and f["len"] == 0 and "S" not in f["fl"] and "F" not in f["fl"] and c.max_end > c.una:
            c.credits += 1
            if w == c.prev_wnd:
                c.dup += 1
                f["isdup"] = True
            else:
                c.dup = 0
        else:
            c.dup = 0
        c.prev_wnd = w
        c.edge = max(c.edge, c.una + w)

    # -- what the stack emitted on the connection ------------------------------------------------
    def on_emit(self, c, outs, bad, f):
        for s in outs:
            if "S" in s["fl"]:
                continue
            if "R" in s["fl"]:
                c.alive = False
                continue
            if getattr(c, "hs", None) is not None:
                # a passively opened connection: its first segment starts at the sequence number the peer's
                # final ACK acknowledged; that must be exactly the one the stack chose in its SYN-ACK
                h, c.hs = c.hs, None
                base = (s["seq"] - 1) % M
                if (base + 1) % M not in h["acks"]:
                    bad.append("c03.connection-without-matching-ack")
                if base != h["S"]:
                    if h["cookie"] and abs(sdiff(base, h["S"])) <= 3:
                        bad.append("c03.cookie-ack-offset")
                        c.cookie_offset = True
                    else:
                        bad.append("c03.accepted-wrong-ack")
                    c.iss = base
            off = sdiff(s["seq"], (c.iss + 1) % M)
            if s["len"] > 0:
                # C01: the bytes are exactly the written bytes at that stream offset
                if off < 0 or off + s["len"] > len(c.W):
                    bad.append("c01.sent-bytes-never-written")
                elif digest(bytes(c.W[off:off + s["len"]])) != s["d"]:
                    bad.append("c01.sent-bytes-differ-from-written")
                # C04: peer's MSS, MTU, offered window
                if s["len"] > c.peer_mss:
                    if c.cookie_offset:
                        bad.append("c04.segment-exceeds-peer-mss-after-cookie-offset")
                    elif c.cookie and c.peer_mss < 536 and s["len"] <= 536:
                        # a SYN cookie only has room for four MSS values, the smallest being 536
                        bad.append("c04.cookie-mss-floor-536")
                    else:
                        bad.append("c04.segment-exceeds-peer-mss")
                if 40 + len(s["opt"]) // 2 + s["len"] > c.mtu:
                    bad.append("c04.segment-exceeds-mtu")
                if off + s["len"] > c.edge:
                    bad.append("c04.sent-beyond-offered-window")
                if c.shutdown and c.fin_sent and off + s["len"] > len(c.W):
                    bad.append("c02.data-after-fin")
                # C05: new data against the congestion bound
                if off >= c.max_end:
                    c.flight[off] = s["len"]
                    if c.cc in ("", "reno") and len(c.flight) > 10 + c.credits:
                        bad.append("c05.flight-exceeds-reno-bound")
                elif off not in c.flight and off >= c.una:
                    c.flight[off] = s["len"]
                c.max_end = max(c.max_end, off + s["len"])
            if "F" in s["fl"]:
                if not c.shutdown:
                    bad.append("c02.fin-without-shutdown")
                elif off + s["len"] != len(c.W):
                    bad.append("c02.fin-not-after-all-data")
                c.fin_sent = True
                c.max_end = max(c.max_end, off + s["len"] + 1)
                c.flight.setdefault(off + s["len"], 1)
            if "A" in s["fl"]:
                ra = sdiff(s["ack"], (c.irs + 1) % M)
                edge = ra + (s["wnd"] << c.my_ws)
                if c.adv_edge is not None and edge < c.adv_edge:
                    # truncation by the window scale loses up to 2^scale - 1 bytes of the promised edge
                    bad.append("c04.advertised-edge-moved-left" if c.adv_edge - edge >= (1 << c.my_ws) else "c04.advertised-edge-truncated-by-scale")
                c.adv_edge = edge if c.adv_edge is None else max(edge, c.adv_edge)
                if ra < c.rcv_nxt:
                    bad.append("c04.ack-moved-backwards")
                if ra > c.rcv_nxt:
                    # C04: data wholly outside the advertised window is never accepted: every newly acknowledged byte
                    # lies in a segment that began inside the window advertised when it arrived
                    hi = ra if c.peer_fin is None else min(ra, c.peer_fin)
                    x = c.rcv_nxt
                    while x < hi:
                        nx = max([e for (o, e) in c.Pin if o <= x < e], default=None)
                        if nx is None:
                            bad.append("c04.data-outside-the-advertised-window-accepted")
                            break
                        x = nx
                c.rcv_nxt = max(c.rcv_nxt, ra)
                c.adv_wnd = s["wnd"] << c.my_ws
                # C04: the advertised window follows the free receive buffer (it reopens when the application reads):
                # it is never smaller than what is free, up to the truncation by the scale and the 16-bit field
                if self.rcvbuf > 0 and c.peer_fin is None and not c.rcv_closed:
                    free = max(0, self.rcvbuf - (ra - c.nread))
                    if c.adv_wnd + (1 << c.my_ws) <= min(free, 65535 << c.my_ws):
                        bad.append("c04.window-smaller-than-free-receive-buffer")
                if c.peer_fin is not None and ra == c.peer_fin + 1:
                    c.rcv_closed = True
        if f is None or f.get("dropped") or not c.alive:
            return
        # C04: in-order data inside the advertised window is accepted (the cumulative ACK moves past it)
        if f["len"] > 0 and "A" in f["fl"] and "R" not in f["fl"] and "S" not in f["fl"] and not f.get("was_closed"):
            off = sdiff(f["seq"], (c.irs + 1) % M)
            if off == f.get("rcv_nxt_before") and f["len"] <= f.get("adv_wnd_before", 0) and not f.get("closed_before"):
                if c.rcv_nxt < off + f["len"]:
                    bad.append("c04.in-window-data-not-accepted")
        # C02: the peer (re)opens its window while data or the FIN waits and nothing is in flight: it must go out now
        if "A" in f["fl"] and "R" not in f["fl"] and "S" not in f["fl"] and (f["wnd"] << c.scale) > 0 and f.get("una_before") is not None:
            waiting = len(c.W) > f["max_end_before"] or (c.shutdown and not f["fin_sent_before"])
            nothing_in_flight = f["max_end_before"] <= max(f["una_before"], sdiff(f["ack"], (c.iss + 1) % M) if sdiff(f["ack"], (c.iss + 1) % M) <= f["max_end_before"] else f["una_before"])
            if waiting and nothing_in_flight and not any(s["len"] > 0 or "F" in s["fl"] for s in outs):
                bad.append("c02.window-open-but-queued-data-not-sent")
        # C05: the third duplicate ACK triggers a retransmission of the earliest unacknowledged segment
        if f.get("isdup") and c.dup == 3 and not c.in_recovery and c.una > c.recover:
            first = not c.loss_episode
            c.loss_episode = True
            c.in_recovery = True
            c.recover = f["max_end_before"] - 1 if f.get("max_end_before") is not None else c.max_end - 1
            if not any(sdiff(s["seq"], (c.iss + 1) % M) == c.una and (s["len"] > 0 or "F" in s["fl"]) for s in outs):
                bad.append("c05.no-fast-retransmit" if first else "c05.no-fast-retransmit-in-a-later-loss-episode")

    # -- application ----------------------------------------------------------------------------
    def on_write(self, c, t, head, outs, bad, op):
        data = bytes.fromhex(t[2]) if len(t) > 2 and t[2] != "-" else b""
        m = re.match(r"n=(\d+)", head)
        n = int(m.group(1)) if m else 0
        if n > len(data):
            bad.append("c01.write-accepted-more-than-given")
        if n and c.shutdown:
            bad.append("c02.write-after-shutdown-accepted")
        c.W += data[:n]
        if n:
            c.last_rto = None
        self.on_emit(c, outs, bad, None)

    def peer_bytes(self, c, a, n):
        """the peer's stream on [a, a+n) as far as any segment it sent defines it"""
        out = bytearray(n)
        have = bytearray(n)
        for (off, b) in c.P:
            lo, hi = max(a, off), min(a + n, off + len(b))
            if lo < hi:
                for i in range(lo, hi):
                    if not have[i - a]:
                        out[i - a] = b[i - off]
                        have[i - a] = 1
        return out, all(have)

    def on_read(self, c, t, head, outs, bad, op):
        if head.startswith("data="):
            d = bytes.fromhex(head[5:].split()[0])
            exp, ok = self.peer_bytes(c, c.nread, len(d))
            if not ok:
                bad.append("c01.read-bytes-never-sent")
            elif bytes(exp) != d:
                bad.append("c01.read-bytes-differ-from-sent")
            if c.peer_fin is not None and c.nread + len(d) > c.peer_fin:
                bad.append("c02.data-beyond-end-of-stream")
            if c.eof_seen:
                bad.append("c02.data-after-eof")
            if c.nread + len(d) > c.rcv_nxt:
                bad.append("c01.read-beyond-acknowledged")
            c.nread += len(d)
        elif head.startswith("endpoint-is-closed-for-receive"):
            if c.alive:
                if not c.rcv_closed:
                    bad.append("c02.eof-without-fin")
                elif c.peer_fin is not None and c.nread != c.peer_fin:
                    bad.append("c02.eof-before-all-data")
                c.eof_seen = True
        self.on_emit(c, outs, bad, None)

    def on_shutdown(self, c, t, head, outs, bad, op):
        if head.startswith("ok") and "w" in t[2]:
            c.shutdown = True
        self.on_emit(c, outs, bad, None)

    def on_rto(self, c, t, head, outs, bad, op):
        """the retransmission timer is expired by the harness (verif hook); d = what it had been armed with (ns)"""
        kv = dict(x.split("=") for x in t[2:] if "=" in x)
        d = int(kv.get("d", -1))
        if not c.alive:
            return
        outstanding = c.max_end > c.una
        if outstanding and d < 0:
            # something is in flight and no timer is armed: the connection can go quiet for ever
            bad.append("c02.outstanding-data-without-timer")
        if d >= 0:
            if d > 120 * 10**9:
                # the sender gives up once the timeout reaches 60 s: nothing legitimate is armed for longer
                bad.append("c02.retransmission-timeout-absurd")
            if d < 200000000:
                bad.append("c05.retransmitted-sooner-than-200ms")
            if c.last_rto is not None and d < 2 * c.last_rto:
                bad.append("c05.timeout-not-doubled")
            c.last_rto = d
            # a timeout abandons fast recovery and moves the RFC 6582 mark to the highest offset sent
            c.in_recovery = False
            c.recover = c.max_end - 1
        if outstanding and d >= 0 and not c.prev_wnd:
            # the peer's window is closed: the timer fires, nothing may be sent; the back-off ends in ErrTimeout
            c.loss_episode = True
        elif outstanding and d >= 0:
            c.loss_episode = True
            if not outs:
                bad.append("c02.outstanding-data-never-retransmitted")
            else:
                s0 = outs[0]
                if sdiff(s0["seq"], (c.iss + 1) % M) != c.una:
                    bad.append("c05.timeout-retransmits-wrong-segment")
                if len([s for s in outs if s["len"] > 0 or "F" in s["fl"]]) != 1:
                    bad.append("c05.timeout-sends-more-than-one-segment")
        elif not outstanding and len(c.W) > c.max_end and not outs and not c.fin_sent:
            # accepted data that was never sent, nothing in flight, and nothing happens: only a window
            # update from the peer can restart the connection -- if that packet is lost it stalls for ever
            bad.append("c02.closed-window-never-probed")
        self.on_emit(c, outs, bad, None)


def run_oracle(ops, outs):
    """-> dict class -> [indices]"""
    o = Oracle()
    classes = {}
    for i, (op, out) in enumerate(zip(ops, outs)):
        try:
            bad = o.step(op, out)
        except Exception as e:  # an oracle bug must never look like a pass
            bad = ["oracle-exception:%s:%s" % (type(e).__name__, str(e)[:60].replace(" ", "_"))]
        for b in sorted(set(bad)):
            classes.setdefault(b, []).append(i)
    return classes
