#!/usr/bin/env python3
"""Regenerate MANIFEST.json from checklib/props.py (kept valid at all times)."""
import json, os, sys, subprocess
ROOT = os.path.dirname(os.path.dirname(os.path.abspath(__file__)))
sys.path.insert(0, os.path.join(ROOT, "checklib"))
from props import PROPS
all_ids = [json.loads(l)["id"] for l in open(os.path.join(ROOT, "properties.jsonl"))]
hooks = []
try:
    out = subprocess.check_output(["git", "-C", "/repo", "log", "--format=%H %s"]).decode()
    hooks = [l.split()[0] for l in out.splitlines() if "verif hook" in l]
except Exception:
    pass
m = {
    "version": 1,
    "setup_cmd": "./check setup",
    "hooks": {
        "guard": "verif",
        "enable": "go build -tags verif (harness module /verif/harness with replace => /repo)",
        "baseline_off_cmd": "cd /repo && GOFLAGS=-mod=mod go test -json -vet=off -count=1 -timeout 25m ./...",
        "source_commits": hooks,
        "add_only": True,
    },
    "engines": [
        {"name": "lean", "path": "lean", "serves_properties": sorted(PROPS), "kind_free_text": "Lean 4 models, specs and theorems (lake project NetProto) + compiled line-protocol driver"},
        {"name": "gofacts", "path": "gofacts", "serves_properties": sorted(PROPS), "kind_free_text": "Go->Lean translator for loop-free integer code, constant and shape extractor; regenerates lean/NetProto/Generated on every run"},
        {"name": "harness", "path": "harness", "serves_properties": sorted(PROPS), "kind_free_text": "Go correspondence harness (-tags verif) driving the real code and emitting the op/out line protocol"},
    ],
    "checks": [],
    "not_applicable": [],
    "notes": "Every check: regenerate Lean definitions from /repo, lake build the property's theorems + axiom audit, build the harness against /repo, run model-vs-implementation correspondence and the property oracle on the implementation's outputs. See DESIGN.md.",
}
for pid in all_ids:
    if pid in PROPS:
        c = PROPS[pid]
        m["checks"].append({
            "property_id": pid,
            "quick_cmd": "./check %s quick" % pid,
            "thorough_cmd": "./check %s thorough" % pid,
            "evidence_file": "evidence/%s.json" % pid,
            "replay_cmd_template": "./check %s --replay {path}" % pid,
            "engine": "lean",
            "level_claimed": {"category": "proof", "text": c["level_text"], "design_ref": "DESIGN.md section 7 " + pid},
            "level_note": c["level_note"],
            "technique": c.get("technique", "Lean 4 theorems about a model tied to the source by translation and differential correspondence"),
        })
    else:
        m["not_applicable"].append({"property_id": pid, "reason": "check not built yet in this round (planned, see DESIGN.md section 9); no claim is made"})
json.dump(m, open(os.path.join(ROOT, "MANIFEST.json"), "w"), indent=1, ensure_ascii=False)
print("MANIFEST.json: %d checks, %d not claimed" % (len(m["checks"]), len(m["not_applicable"])))
