# Per-property configuration for ./check
PROPS = {
    "C14": {
        "lean_modules": ["NetProto.Props.C14"],
        "harness": "c14",
        "thorough_seeds": 3,
        "rule": "tuples of 32-bit operands for every function of pkg/seqnum, boundary-biased (0, 2^15, 2^16, 2^31, 2^32-1, +-k, operands near each other, antipodes); distinct = distinct op lines; every tuple is non-trivial",
        "trusted_base": ["pkg/seqnum is translated to Lean on every run (no hand model in the proof); the hand model used by the driver is proved equal to it"],
        "assumptions": ["Go uint32/int32 arithmetic semantics as encoded by the translator (cross-checked by running the compiled functions on every generated tuple)"],
        "modelled": [],
        "level_text": "Every function of pkg/seqnum is translated from the current source to Lean (BitVec 32) on every run and characterised by theorems for all operands: LessThan/LessThanEq/InRange/InWindow/Add/Size exactly, Overlap on its domain of agreement with 'share a sequence number' (with kernel-checked counter-witnesses outside it), plus bridging lemmas from modular comparison to unbounded stream offsets used by the TCP properties. The compiled Go functions are run against the model and the independent oracle on boundary-biased tuples.",
        "level_note": "Trusted: Lean kernel (axioms propext, Classical.choice, Quot.sound), the gofacts integer-subset translator (cross-checked by correspondence on every run). Recorded deviations of the code from the literal property (distance exactly 2^31; Overlap outside its domain) are in known_findings.json.",
        "technique": "Lean 4 proof over regenerated BitVec translation + differential correspondence",
    },
}
