# Per-property configuration for ./check
PROPS = {
    "C14": {
        "lean_modules": ["NetProto.Props.C14"],
        "harness": "c14",
        "thorough_seeds": 3,
        "rule": "tuples of 32-bit operands for every function of pkg/seqnum, boundary-biased (0, 2^15, 2^16, 2^31, 2^32-1, +-k, operands near each other, antipodes); distinct = distinct op lines; every tuple is non-trivial",
        "trusted_base": ["pkg/seqnum is translated to Lean on every run (no hand model in the proof); the hand model used by the driver is proved equal to it"],
        "assumptions": ["Go uint32/int32 arithmetic semantics as encoded by the translator (cross-checked by running the compiled functions on every generated tuple)"],
        "modelled": [],
        "level_text": "Every function of pkg/seqnum is translated from the current source to Lean (BitVec 32) on every run and characterised by theorems for all operands: LessThan/LessThanEq/InRange/InWindow/Add/Size exactly, Overlap on its domain of agreement with 'share a sequence number' (with kernel-checked counter-witnesses outside it), plus bridging lemmas from modular comparison to unbounded stream offsets used by the TCP properties. The compiled Go functions are run against the model and the independent oracle on boundary-biased tuples.",
        "level_note": "Trusted: Lean kernel (axioms propext, Classical.choice, Quot.sound), the gofacts integer-subset translator (cross-checked by correspondence on every run). Recorded deviations of the code from the literal property (distance exactly 2^31; Overlap outside its domain) are in known_findings.json.",
        "technique": "Lean 4 proof over regenerated BitVec translation + differential correspondence",
    },
    "C15": {
        "lean_modules": ["NetProto.Props.C15", "NetProto.Props.C15Opts"],
        "harness": "c15",
        "thorough_seeds": 2,
        "rule": "checksum over every buffer length 0..N (all-ones, zero, random content) and a sweep of initial values; ChecksumCombine pairs; encoders of IPv4/TCP/UDP/Ethernet/IPv6/ARP on random old buffers with boundary-biased field values; accessors/IsValid on random and mutated headers; option parsers on structure-aware mutated option strings; encoder->parser round trips. distinct = distinct op lines",
        "trusted_base": ["hand-written byte-level model of protocol/header (Model/Header.lean), tied by differential correspondence on every run and by offsets_anchor/option_kinds_anchor to the regenerated constants",
                         "independent RFC decoders (Spec/Rfc.lean) used as oracle"],
        "assumptions": ["encoding/binary big-endian helpers behave as the model's be16/be32 (checked by correspondence, not proved)",
                        "accessors are applied to buffers at least as long as the fixed header (callers check IsValid / length first; C07 covers the callers)"],
        "modelled": ["DNS query builder and ICMP setters are covered by correspondence/oracle only where listed in the distribution; IPv6 and ARP layouts are checked by the oracle on every run but their decode_encode theorems are not proved (omega too slow on the 32-bit or-combination)"],
        "level_text": "Checksum = RFC 1071 one's-complement sum proved for every byte buffer up to 131070 bytes and every 16-bit initial value (checksum_eq_rfc1071), ChecksumCombine proved equal to end-around-carry addition on the regenerated translation, complement-verifies and even-prefix chaining lemmas (with the odd-prefix counter-witness). Independent RFC decoding of encoder output proved for all field values for IPv4, TCP, UDP, Ethernet (decode_encode, accessors). Option parsers proved never to read outside their input (non-interference with trailing memory) and to invert the encoders for every option sequence (parseSyn_encode, parseTCP_encode). The Go package is run against the model and the RFC oracle on every run.",
        "level_note": "Trusted: Lean kernel (propext, Classical.choice, Quot.sound), hand model of protocol/header tied by correspondence, constant extractor. IPv6/ARP/ICMP/DNS layouts: oracle + correspondence only.",
        "technique": "Lean 4 proof over hand model + regenerated constants; differential correspondence and RFC oracle",
    },
}
