import json, sys, os, re, glob
sys.path.insert(0,'/verif/checklib'); import props
P=props.PROPS
titles={}
for l in open('/verif/properties.jsonl'):
    d=json.loads(l); titles[d['id']]=d['title']
kf=json.load(open('/verif/known_findings.json'))
seeded={}
for d in sorted(glob.glob('/verif/seeded/*/meta.json')):
    m=json.load(open(d)); seeded.setdefault(m['property'],[]).append((os.path.basename(os.path.dirname(d)),m))
def nthm(mods):
    n=0
    for m in mods:
        p='/verif/lean/'+m.replace('.','/')+'.lean'
        n+=len(re.findall(r'^theorem ',open(p).read(),re.M))
    return n
head=open('/verif/checklib/design/head.md').read()
tail=open('/verif/checklib/design/tail.md').read()
out=[head]
out.append("## 7. Per property: what is modelled, what is proved, how it is tied, what is left\n")
out.append("Each subsection is generated from the same per-property record (`checklib/props.py`) that the check writes into\nthe evidence file, so the claims below are the claims the evidence repeats on every run. *Proved* lists theorem names\nin `lean/NetProto/Props/<id>.lean`; *Exercised* is the correspondence / oracle run; *Modelled, not verified* and\n*Assumptions* are the per-property part of the trusted base.\n")
extra=json.load(open('/verif/checklib/design/extra.json'))
for pid in sorted(P):
    c=P[pid]
    mods=c.get('lean_modules',['NetProto.Props.'+pid])
    out.append("### %s — %s\n"%(pid,titles[pid]))
    out.append("*Technique.* %s.  Property theorems: %d in `%s`.\n"%(c['technique'],nthm(mods),', '.join(m.replace('NetProto.','') for m in mods)))
    out.append("*Proved.* %s\n"%c['level_text'])
    out.append("*Exercised (tie to the code).* %s.\n"%c['rule'].rstrip('.'))
    if c.get('modelled'): out.append("*Modelled, not verified.* "+'; '.join(c['modelled'])+".\n")
    if c.get('assumptions'): out.append("*Assumptions.* "+'; '.join(c['assumptions'])+".\n")
    if pid in extra: out.append(extra[pid]+"\n")
    ks=[f for f in kf['findings'] if f['property']==pid]
    fx=[f for f in kf['fixed'] if 'property=%s '%pid in f]
    if ks:
        out.append("*Known findings (reported as `KNOWN-FINDING`, exit 0).* "+' '.join("`%s`: %s."%(f['class'],f['what'].rstrip('.')) for f in ks)+"\n")
    if fx:
        out.append("*Defects repaired in /repo.* "+' '.join(f.replace('fixed: property=%s '%pid,'').rstrip('.')+'.' for f in fx)+"\n")
    for name,m in seeded.get(pid,[]):
        out.append("*Seeded change `%s`.* %s. Needs: %s. Result: %s\n"%(name,m['breaks'].rstrip('.'),m['needs_to_manifest'].rstrip('.'),m['caught_by']))
out.append(tail)
open('/verif/DESIGN.md','w').write('\n'.join(out))
print(len('\n'.join(out).split('\n')),'lines')
